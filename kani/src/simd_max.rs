//! C07 / C06 (bounded): the real AVX2 maximum / arg-maximum kernels on score matrices with a few fully symbolic rows.
use lightmotif::abc::*;
use lightmotif::dense::*;
use lightmotif::num::*;
use lightmotif::pli::platform::*;
use lightmotif::scores::*;
use crate::intrinsics::*;

fn sym_scores_u8(rows: usize) -> StripedScores<u8, U32> {
    let mut sc = StripedScores::<u8, U32>::empty();
    *sc.matrix_mut() = unsafe { DenseMatrix::<u8, U32>::uninitialized(rows) };
    let mut r = 0;
    while r < rows { let row: [u8; 32] = kani::any(); let mut c = 0; while c < 32 { sc.matrix_mut()[r][c] = row[c]; c += 1; } r += 1; }
    sc
}

#[kani::proof]
#[kani::unwind(34)]
#[kani::stub(std::arch::x86_64::_mm256_max_epu8, m256_max_epu8)]
#[kani::stub(std::arch::x86_64::_mm256_max_epi8, m256_max_epi8)]
#[kani::stub(std::arch::x86_64::_mm256_load_si256, m256_load_si256)]
fn k_c07_avx2_max_u8_rows2() {
    const R: usize = 2;
    let sc = sym_scores_u8(R);
    let got = Avx2::max_u8(&sc);
    let (r, c): (usize, usize) = (kani::any(), kani::any());
    kani::assume(r < R && c < 32);
    match got {
        None => panic!("None on a non-empty matrix"),
        Some(m) => {
            assert!(m >= sc.matrix()[r][c]);               // dominates every cell
            // ... and is held by some cell
            let mut held = false;
            let mut i = 0;
            while i < R { let mut j = 0; while j < 32 { if sc.matrix()[i][j] == m { held = true; } j += 1; } i += 1; }
            assert!(held);
        }
    }
}

#[kani::proof]
#[kani::unwind(34)]
#[kani::stub(std::arch::x86_64::_mm256_blendv_epi8, m256_blendv_epi8)]
#[kani::stub(std::arch::x86_64::_mm256_load_si256, m256_load_si256)]
fn k_c07_avx2_argmax_u8_rows2() {
    const R: usize = 2;
    let sc = sym_scores_u8(R);
    let got = Avx2::argmax_u8(&sc);
    let (r, c): (usize, usize) = (kani::any(), kani::any());
    kani::assume(r < R && c < 32);
    match got {
        None => panic!("None on a non-empty matrix"),
        Some(mc) => {
            assert!(mc.row < R && mc.col < 32);
            assert!(sc.matrix()[mc.row][mc.col] >= sc.matrix()[r][c]);
        }
    }
}

/// ODD number of rows (1 and 3): a kernel unrolled over pairs of rows must not touch a row past the last one.
#[kani::proof]
#[kani::unwind(34)]
#[kani::stub(std::arch::x86_64::_mm256_max_epu8, m256_max_epu8)]
#[kani::stub(std::arch::x86_64::_mm256_max_epi8, m256_max_epi8)]
#[kani::stub(std::arch::x86_64::_mm256_blendv_epi8, m256_blendv_epi8)]
#[kani::stub(std::arch::x86_64::_mm256_load_si256, m256_load_si256)]
fn k_c07_avx2_max_argmax_u8_rows1() {
    const R: usize = 1;
    let sc = sym_scores_u8(R);
    let c: usize = kani::any();
    kani::assume(c < 32);
    match Avx2::max_u8(&sc) {
        None => panic!("None on a non-empty matrix"),
        Some(m) => {
            assert!(m >= sc.matrix()[0][c]);
            // held by a cell of THE row (Vec::reserve(1) allocates 4 rows: a read of row 1 stays inside the allocation but is garbage)
            let mut held = false; let mut j = 0;
            while j < 32 { if sc.matrix()[0][j] == m { held = true; } j += 1; }
            assert!(held);
        }
    }
    match Avx2::argmax_u8(&sc) { None => panic!("None on a non-empty matrix"), Some(mc) => { assert!(mc.row < R && mc.col < 32); assert!(sc.matrix()[mc.row][mc.col] >= sc.matrix()[0][c]); } }
}

#[kani::proof]
#[kani::unwind(4)]
fn k_c07_avx2_max_empty() {
    let sc8 = StripedScores::<u8, U32>::empty();
    assert!(Avx2::max_u8(&sc8).is_none() && Avx2::argmax_u8(&sc8).is_none());
    let scf = StripedScores::<f32, U32>::empty();
    assert!(Avx2::max_f32(&scf).is_none() && Avx2::argmax_f32(&scf).is_none());
}

// NOTE: harnesses on the f32 kernels (max_f32_avx2 / argmax_f32_avx2) with 32 ARBITRARY symbolic f32 cells gave no answer within 10 and
// 25 minutes (CBMC float reasoning); the harness below restricts every cell to four values instead (bounded, stated).

fn small_f32() -> f32 { let k: u8 = kani::any(); kani::assume(k < 4); [f32::NEG_INFINITY, -3.5, -0.25, 2.0][k as usize] }

/// C07 (bounded, restricted domain): the real AVX2 f32 maximum / arg-maximum on 2 rows x 32 columns whose cells range over
/// {-inf, -3.5, -0.25, 2.0} (all 4^64 matrices): the reported maximum dominates every cell and is held by one; the arg-maximum
/// designates a dominating cell. (Arbitrary f32 cells gave no answer within 25 minutes.)
#[kani::proof]
#[kani::unwind(34)]
#[kani::stub(std::arch::x86_64::_mm256_cmp_ps, m256_cmp_ps)]
#[kani::stub(std::arch::x86_64::_mm256_blendv_ps, m256_blendv_ps)]
#[kani::stub(std::arch::x86_64::_mm256_max_ps, m256_max_ps)]
#[kani::stub(std::arch::x86_64::_mm256_load_ps, m256_load_ps)]
#[kani::stub(std::arch::x86_64::_mm256_blendv_epi8, m256_blendv_epi8)]
#[kani::stub(std::arch::x86_64::_mm256_load_si256, m256_load_si256)]
fn k_c07_avx2_max_argmax_f32_rows2_small() {
    const R: usize = 2;
    let mut sc = StripedScores::<f32, U32>::empty();
    *sc.matrix_mut() = unsafe { DenseMatrix::<f32, U32>::uninitialized(R) };
    let mut r = 0;
    while r < R { let mut c = 0; while c < 32 { sc.matrix_mut()[r][c] = small_f32(); c += 1; } r += 1; }
    let (r, c): (usize, usize) = (kani::any(), kani::any());
    kani::assume(r < R && c < 32);
    match Avx2::max_f32(&sc) {
        None => panic!("None on a non-empty matrix"),
        Some(m) => {
            assert!(m >= sc.matrix()[r][c]);
            let mut held = false; let mut i = 0;
            while i < R { let mut j = 0; while j < 32 { if sc.matrix()[i][j] == m { held = true; } j += 1; } i += 1; }
            assert!(held);
        }
    }
    match Avx2::argmax_f32(&sc) {
        None => panic!("None on a non-empty matrix"),
        Some(mc) => { assert!(mc.row < R && mc.col < 32); assert!(sc.matrix()[mc.row][mc.col] >= sc.matrix()[r][c]); }
    }
}
