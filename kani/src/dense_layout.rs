//! C19 / C06: layout facts of the real `DenseMatrix` (complete: constants of the program) and bounded checks of its unsafe API.
use lightmotif::dense::*;
use lightmotif::num::*;

macro_rules! layout { ($name:ident, $t:ty, $c:ty) => {
    #[kani::proof]
    #[kani::unwind(4)]
    fn $name() {
        let mut m = unsafe { DenseMatrix::<$t, $c>::uninitialized(2) };
        let cols = <$c as Unsigned>::USIZE;
        assert!(m.rows() == 2 && m.columns() == cols);
        // the stride is at least the column count and a whole number of 32-byte alignment units
        assert!(m.stride() >= cols);
        assert!((m.stride() * std::mem::size_of::<$t>()) % 32 == 0);
        // every row starts on a 32-byte boundary and rows are `stride` elements apart
        let p0 = m[0].as_ptr() as usize; let p1 = m[1].as_ptr() as usize;
        assert!(p0 % 32 == 0 && p1 % 32 == 0);
        assert!(p1 - p0 == m.stride() * std::mem::size_of::<$t>());
        assert!(m[0].len() == cols && m[1].len() == cols);
    }
}; }
layout!(k_c19_layout_u8_1, u8, U1);
layout!(k_c19_layout_u8_5, u8, U5);
layout!(k_c19_layout_u8_32, u8, U32);
layout!(k_c19_layout_u8_43, u8, U43);
layout!(k_c19_layout_u32_5, u32, U5);
layout!(k_c19_layout_u32_21, u32, U21);
layout!(k_c19_layout_f32_7, f32, U7);
layout!(k_c19_layout_f32_16, f32, U16);
layout!(k_c19_layout_f32_32, f32, U32);
layout!(k_c19_layout_i64_5, i64, U5);
layout!(k_c19_layout_i64_32, i64, U32);

/// bounded: `uninitialized`, row writes, `fill`, `ravel`, `Clone`, `PartialEq` on the real type with 2 rows of 5 u8 cells:
/// fill writes every logical cell; a clone is equal; equality sees every logical cell and the row count; pointer safety by Kani
#[kani::proof]
#[kani::unwind(70)]
fn k_c19_unsafe_fill_clone_eq_u8_5() {
    let mut m = unsafe { DenseMatrix::<u8, U5>::uninitialized(2) };
    let v: u8 = kani::any();
    m.fill(v);
    let (r, c): (usize, usize) = (kani::any(), kani::any());
    kani::assume(r < 2 && c < 5);
    assert!(m[r][c] == v);
    assert!(unsafe { m.ravel() }.len() == 2 * m.stride());
    let x: u8 = kani::any();
    m[r][c] = x;
    let mut m2 = m.clone();
    assert!(m2 == m && m2.rows() == 2);
    let y: u8 = kani::any();
    m2[r][c] = y;
    assert!((m2 == m) == (x == y));                 // equality depends on every logical cell ...
    let m3 = unsafe { DenseMatrix::<u8, U5>::uninitialized(0) };
    let m4 = unsafe { DenseMatrix::<u8, U5>::uninitialized(1) };
    assert!(m3 != m && m4 != m && m3 != m4);        // ... and on the row count
    let keep = m2[0][c];
    m2.resize(1);
    assert!(m2 != m && m2.rows() == 1 && m2[0][c] == keep);      // shrinking keeps the remaining row
}
