//! C06 / C04 (bounded): the real AVX2 striping kernel on one 32x32 block. The sequence contents are concrete (the point of the
//! harness is memory safety of the 32 unaligned block loads and the streaming stores, which Kani checks), the buffer is pre-sized
//! so that the kernel's `resize` does not grow the matrix.
use lightmotif::abc::*;
use lightmotif::dense::*;
use lightmotif::num::*;
use lightmotif::pli::platform::*;
use lightmotif::seq::*;
use crate::intrinsics::*;

fn run<const L: usize>() {
    let mut seq = [Nucleotide::A; L];
    let mut i = 0;
    while i < L { seq[i] = Dna::symbols()[i % 4]; i += 1; }
    let rows = (L + 31) / 32;
    let m = unsafe { DenseMatrix::<Nucleotide, U32>::uninitialized(rows) };
    let mut striped = StripedSequence::<Dna, U32>::with_wrap_unchecked(m, 0, 0);
    Avx2::stripe_into(&seq[..], &mut striped);
    assert!(striped.len() == L && striped.matrix().rows() == rows);
    // symbol p sits at row p % R, column p / R; the padding holds the wildcard
    let p: usize = kani::any();
    kani::assume(p < rows * 32);
    let want = if p < L { seq[p] } else { Nucleotide::N };
    assert!(striped.matrix()[p % rows][p / rows] == want);
}

/// L = 1024 = 32 * 32: one full block, no tail: every load is inside the slice
#[kani::proof]
#[kani::unwind(1030)]
#[kani::stub(std::arch::x86_64::_mm256_stream_si256, m256_stream_si256)]
#[kani::stub(std::arch::x86_64::_mm_sfence, m_sfence)]
fn k_c06_avx2_stripe_1024() { run::<1024>(); }

/// L = 1000 (R = 32, L % 32 != 0): the last column holds 8 symbols only; the block load of column 31 must stay inside the slice
#[kani::proof]
#[kani::unwind(1030)]
#[kani::stub(std::arch::x86_64::_mm256_stream_si256, m256_stream_si256)]
#[kani::stub(std::arch::x86_64::_mm_sfence, m_sfence)]
fn k_c06_avx2_stripe_1000() { run::<1000>(); }
