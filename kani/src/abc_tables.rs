//! C05 / C10: complete (loop-free, all 256 bytes) table facts for the two real alphabets.
use lightmotif::abc::*;

const DNA: &[u8] = b"ACTGN";
const PROT: &[u8] = b"ACDEFGHIKLMNPQRSTVWYX";

fn member(s: &[u8], b: u8) -> bool {
    let mut i = 0;
    let mut found = false;
    while i < s.len() {
        if s[i] == b { found = true; }
        i += 1;
    }
    found
}

/// from_ascii: Ok iff the byte is an upper-case letter of the alphabet; Err carries that byte; as_ascii inverts it;
/// as_index < K; symbols()[as_index(s)] == s; as_str()[as_index(s)] == as_ascii(s)
#[kani::proof]
#[kani::unwind(23)]
fn k_c05_nucleotide_table() {
    let b: u8 = kani::any();
    match Nucleotide::from_ascii(b) {
        Ok(s) => {
            assert!(member(DNA, b));
            assert!(s.as_ascii() == b);
            assert!(s.as_char() == b as char);
            assert!(s.as_index() < 5);
            assert!(Dna::symbols()[s.as_index()] == s);
            assert!(Dna::as_str().as_bytes()[s.as_index()] == b);
        }
        Err(e) => {
            assert!(!member(DNA, b));
            assert!(e.0 == b as char);
        }
    }
}

#[kani::proof]
#[kani::unwind(23)]
fn k_c05_aminoacid_table() {
    let b: u8 = kani::any();
    match AminoAcid::from_ascii(b) {
        Ok(s) => {
            assert!(member(PROT, b));
            assert!(s.as_ascii() == b);
            assert!(s.as_char() == b as char);
            assert!(s.as_index() < 21);
            assert!(Protein::symbols()[s.as_index()] == s);
            assert!(Protein::as_str().as_bytes()[s.as_index()] == b);
        }
        Err(e) => {
            assert!(!member(PROT, b));
            assert!(e.0 == b as char);
        }
    }
}

/// symbols() lists K symbols, symbol k has index k (the A-ABC1 `symbols_ok` assumption of the Verus prelude),
/// the wildcard is the default symbol and has the last index
#[kani::proof]
#[kani::unwind(23)]
fn k_c05_symbols_indexing() {
    let k: usize = kani::any();
    assert!(Dna::symbols().len() == 5);
    assert!(Protein::symbols().len() == 21);
    if k < 5 {
        assert!(Dna::symbols()[k].as_index() == k);
    }
    if k < 21 {
        assert!(Protein::symbols()[k].as_index() == k);
    }
    assert!(Dna::default_symbol() == Nucleotide::N && Nucleotide::default().as_index() == 4);
    assert!(Protein::default_symbol() == AminoAcid::X && AminoAcid::default().as_index() == 20);
}

/// C10: complement is an involution, a permutation of the indices, fixes N, and pairs A<->T, C<->G
#[kani::proof]
fn k_c10_complement_involution() {
    let k: usize = kani::any();
    kani::assume(k < 5);
    let s = Dna::symbols()[k];
    let c = s.complement();
    assert!(c.complement() == s);
    assert!(<Dna as ComplementableAlphabet>::complement(s) == c);
    assert!((s == Nucleotide::N) == (c == Nucleotide::N));
    assert!(c != s || s == Nucleotide::N);
    match s {
        Nucleotide::A => assert!(c == Nucleotide::T),
        Nucleotide::T => assert!(c == Nucleotide::A),
        Nucleotide::C => assert!(c == Nucleotide::G),
        Nucleotide::G => assert!(c == Nucleotide::C),
        Nucleotide::N => assert!(c == Nucleotide::N),
    }
    let k2: usize = kani::any();
    kani::assume(k2 < 5);
    if k2 != k {
        assert!(Dna::symbols()[k2].complement() != c);
    }
}
