//! C08 / C02 / C06 (bounded): the real AVX2 8-bit scoring kernel (`score_u8_avx2_shuffle` through `Avx2::score_u8_rows_into_shuffle`)
//! on a fully symbolic striped sequence with look-ahead rows and a symbolic byte matrix: every cell is the SATURATED sum of the
//! window read down its column; aligned loads/stores are aligned; no access leaves its allocation.
use lightmotif::abc::*;
use lightmotif::dense::*;
use lightmotif::num::*;
use lightmotif::pli::platform::*;
use lightmotif::scores::*;
use lightmotif::seq::*;
use crate::intrinsics::*;

fn any_nuc() -> Nucleotide { let c: u8 = kani::any(); kani::assume(c < 5); Dna::symbols()[c as usize] }

#[kani::proof]
#[kani::unwind(34)]
#[kani::stub(std::arch::x86_64::_mm256_shuffle_epi8, m256_shuffle_epi8)]
#[kani::stub(std::arch::x86_64::_mm256_adds_epu8, m256_adds_epu8)]
#[kani::stub(std::arch::x86_64::_mm256_broadcastsi128_si256, m256_broadcastsi128_si256)]
#[kani::stub(std::arch::x86_64::_mm256_stream_si256, m256_stream_si256)]
#[kani::stub(std::arch::x86_64::_mm256_load_si256, m256_load_si256)]
#[kani::stub(std::arch::x86_64::_mm_sfence, m_sfence)]
fn k_c08_avx2_score_u8_r2_m3() {
    const R: usize = 2; const M: usize = 3;
    let mut sm = unsafe { DenseMatrix::<Nucleotide, U32>::uninitialized(R + M - 1) };
    let mut r = 0;
    while r < R + M - 1 { let mut c = 0; while c < 32 { sm[r][c] = any_nuc(); c += 1; } r += 1; }
    let seq = StripedSequence::<Dna, U32>::with_wrap_unchecked(sm, 32 * R, M - 1);
    let mut pm = unsafe { DenseMatrix::<u8, U5>::uninitialized(M) };
    let mut r = 0;
    while r < M { let mut c = 0; while c < 5 { pm[r][c] = kani::any(); c += 1; } r += 1; }
    let mut scores = StripedScores::<u8, U32>::empty();
    // the buffer comes in with MORE rows than requested (reuse after a larger block): the kernel must shrink it
    *scores.matrix_mut() = unsafe { DenseMatrix::<u8, U32>::uninitialized(R + 1) };
    scores.resize(R + 1, 32 * R + 1 - M);     // same max_index as the coming call, as left by a previous (larger) block
    Avx2::score_u8_rows_into_shuffle::<Dna, _, _>(&pm, &seq, 0..R, &mut scores);
    assert!(scores.matrix().rows() == R && scores.max_index() == 32 * R + 1 - M);
    let (row, c): (usize, usize) = (kani::any(), kani::any());
    kani::assume(row < R && c < 32);
    let mut want: u32 = 0;
    let mut j = 0;
    while j < M { want += pm[j][seq.matrix()[row + j][c].as_index()] as u32; j += 1; }
    let want = if want > 255 { 255 } else { want } as u8;
    assert!(scores.matrix()[row][c] == want);
}

/// Row SUB-RANGE not starting at 0 (what the scanner does for every block but the first): rows 1..2 of a 2-row sequence,
/// width 2; the output matrix has exactly one row and the kernel must write that row only.
#[kani::proof]
#[kani::unwind(34)]
#[kani::stub(std::arch::x86_64::_mm256_shuffle_epi8, m256_shuffle_epi8)]
#[kani::stub(std::arch::x86_64::_mm256_adds_epu8, m256_adds_epu8)]
#[kani::stub(std::arch::x86_64::_mm256_broadcastsi128_si256, m256_broadcastsi128_si256)]
#[kani::stub(std::arch::x86_64::_mm256_stream_si256, m256_stream_si256)]
#[kani::stub(std::arch::x86_64::_mm256_load_si256, m256_load_si256)]
#[kani::stub(std::arch::x86_64::_mm_sfence, m_sfence)]
fn k_c08_avx2_score_u8_rows1to2_m2() {
    const R: usize = 2; const M: usize = 2;
    let mut sm = unsafe { DenseMatrix::<Nucleotide, U32>::uninitialized(R + M - 1) };
    let mut r = 0;
    while r < R + M - 1 { let mut c = 0; while c < 32 { sm[r][c] = any_nuc(); c += 1; } r += 1; }
    let seq = StripedSequence::<Dna, U32>::with_wrap_unchecked(sm, 32 * R, M - 1);
    let mut pm = unsafe { DenseMatrix::<u8, U5>::uninitialized(M) };
    let mut r = 0;
    while r < M { let mut c = 0; while c < 5 { pm[r][c] = kani::any(); c += 1; } r += 1; }
    let mut scores = StripedScores::<u8, U32>::empty();
    // buffer reused after the previous (2-row) block; also avoids growing through `DenseMatrix::resize` (CBMC GenericArray crash)
    *scores.matrix_mut() = unsafe { DenseMatrix::<u8, U32>::uninitialized(2) };
    scores.resize(2, 32 * R + 1 - M);
    Avx2::score_u8_rows_into_shuffle::<Dna, _, _>(&pm, &seq, 1..2, &mut scores);
    assert!(scores.matrix().rows() == 1);
    let c: usize = kani::any();
    kani::assume(c < 32);
    let want: u32 = pm[0][seq.matrix()[1][c].as_index()] as u32 + pm[1][seq.matrix()[2][c].as_index()] as u32;
    let want = if want > 255 { 255 } else { want } as u8;
    assert!(scores.matrix()[0][c] == want);
}

/// C01 (bounded, half a): the AVX2 permute kernel (DNA) with ONE matrix row whose 5 cells are arbitrary non-NaN f32 bit patterns:
/// the table look-up and the 128-bit lane un-permutation are right for every symbol in every one of the 32 columns.
#[kani::proof]
#[kani::unwind(34)]
#[kani::stub(std::arch::x86_64::_mm256_shuffle_epi8, m256_shuffle_epi8)]
#[kani::stub(std::arch::x86_64::_mm256_permutevar8x32_ps, m256_permutevar8x32_ps)]
#[kani::stub(std::arch::x86_64::_mm256_permute2f128_ps, m256_permute2f128_ps)]
#[kani::stub(std::arch::x86_64::_mm256_stream_ps, m256_stream_ps)]
#[kani::stub(std::arch::x86_64::_mm256_load_si256, m256_load_si256)]
#[kani::stub(std::arch::x86_64::_mm_sfence, m_sfence)]
fn k_c01_avx2_score_f32_permute_m1() {
    const R: usize = 1; const M: usize = 1;
    let mut sm = unsafe { DenseMatrix::<Nucleotide, U32>::uninitialized(R + M - 1) };
    let mut c = 0;
    while c < 32 { sm[0][c] = any_nuc(); c += 1; }
    let seq = StripedSequence::<Dna, U32>::with_wrap_unchecked(sm, 32 * R, M - 1);
    let mut pm = unsafe { DenseMatrix::<f32, U5>::uninitialized(M) };
    let mut c = 0;
    while c < 5 { let x: f32 = kani::any(); kani::assume(!x.is_nan()); pm[0][c] = x; c += 1; }
    let mut scores = StripedScores::<f32, U32>::empty();
    *scores.matrix_mut() = unsafe { DenseMatrix::<f32, U32>::uninitialized(R) };
    Avx2::score_f32_rows_into::<Dna, _, _>(&pm, &seq, 0..R, &mut scores);
    let c: usize = kani::any(); kani::assume(c < 32);
    let expect = 0.0f32 + pm[0][seq.matrix()[0][c].as_index()];
    assert!(scores.matrix()[0][c].to_bits() == expect.to_bits());
}

/// C01 (bounded, half b): two matrix rows with concrete, distinct power-of-two cells (their sums identify the addends exactly),
/// symbolic symbols, one sequence row + one look-ahead row: accumulation across rows and lane routing.
#[kani::proof]
#[kani::unwind(34)]
#[kani::stub(std::arch::x86_64::_mm256_shuffle_epi8, m256_shuffle_epi8)]
#[kani::stub(std::arch::x86_64::_mm256_permutevar8x32_ps, m256_permutevar8x32_ps)]
#[kani::stub(std::arch::x86_64::_mm256_permute2f128_ps, m256_permute2f128_ps)]
#[kani::stub(std::arch::x86_64::_mm256_stream_ps, m256_stream_ps)]
#[kani::stub(std::arch::x86_64::_mm256_load_si256, m256_load_si256)]
#[kani::stub(std::arch::x86_64::_mm_sfence, m_sfence)]
fn k_c01_avx2_score_f32_permute_m2_pow2() {
    const R: usize = 1; const M: usize = 2;
    let mut sm = unsafe { DenseMatrix::<Nucleotide, U32>::uninitialized(R + M - 1) };
    let mut r = 0;
    while r < R + M - 1 { let mut c = 0; while c < 32 { sm[r][c] = any_nuc(); c += 1; } r += 1; }
    let seq = StripedSequence::<Dna, U32>::with_wrap_unchecked(sm, 32 * R, M - 1);
    let mut pm = unsafe { DenseMatrix::<f32, U5>::uninitialized(M) };
    let mut r = 0;
    while r < M { let mut c = 0; while c < 5 { pm[r][c] = (1u32 << (5 * r + c)) as f32; c += 1; } r += 1; }
    let mut scores = StripedScores::<f32, U32>::empty();
    *scores.matrix_mut() = unsafe { DenseMatrix::<f32, U32>::uninitialized(R) };
    Avx2::score_f32_rows_into::<Dna, _, _>(&pm, &seq, 0..R, &mut scores);
    let c: usize = kani::any(); kani::assume(c < 32);
    let expect = (0.0f32 + pm[0][seq.matrix()[0][c].as_index()]) + pm[1][seq.matrix()[1][c].as_index()];
    assert!(scores.matrix()[0][c].to_bits() == expect.to_bits());
}

/// C01 / C06 (bounded): the AVX2 PERMUTE kernel (DNA) on the LAST sequence row of a matrix whose allocation is exact (4 rows: three
/// sequence rows and one look-ahead row, motif width 2): a load that strays past the last look-ahead row - e.g. a software-pipelined
/// "next row" preload - leaves the allocation (a clone of a configured sequence has exactly such storage). Values: concrete
/// power-of-two cells, symbolic symbols in the two rows read.
#[kani::proof]
#[kani::unwind(34)]
#[kani::stub(std::arch::x86_64::_mm256_shuffle_epi8, m256_shuffle_epi8)]
#[kani::stub(std::arch::x86_64::_mm256_permutevar8x32_ps, m256_permutevar8x32_ps)]
#[kani::stub(std::arch::x86_64::_mm256_permute2f128_ps, m256_permute2f128_ps)]
#[kani::stub(std::arch::x86_64::_mm256_stream_ps, m256_stream_ps)]
#[kani::stub(std::arch::x86_64::_mm256_load_si256, m256_load_si256)]
#[kani::stub(std::arch::x86_64::_mm_sfence, m_sfence)]
fn k_c06_avx2_score_f32_permute_last_row_exact() {
    const R: usize = 3; const M: usize = 2;
    let mut sm = unsafe { DenseMatrix::<Nucleotide, U32>::uninitialized(R + M - 1) };
    let mut r = 0;
    while r < R - 1 { let mut c = 0; while c < 32 { sm[r][c] = Dna::symbols()[4]; c += 1; } r += 1; }
    while r < R + M - 1 { let mut c = 0; while c < 32 { sm[r][c] = any_nuc(); c += 1; } r += 1; }
    let seq = StripedSequence::<Dna, U32>::with_wrap_unchecked(sm, 32 * R, M - 1);
    let mut pm = unsafe { DenseMatrix::<f32, U5>::uninitialized(M) };
    let mut r = 0;
    while r < M { let mut c = 0; while c < 5 { pm[r][c] = (1u32 << (5 * r + c)) as f32; c += 1; } r += 1; }
    let mut scores = StripedScores::<f32, U32>::empty();
    *scores.matrix_mut() = unsafe { DenseMatrix::<f32, U32>::uninitialized(1) };
    Avx2::score_f32_rows_into::<Dna, _, _>(&pm, &seq, R - 1..R, &mut scores);
    assert!(scores.matrix().rows() == 1);
    let c: usize = kani::any(); kani::assume(c < 32);
    let expect = (0.0f32 + pm[0][seq.matrix()[R - 1][c].as_index()]) + pm[1][seq.matrix()[R][c].as_index()];
    assert!(scores.matrix()[0][c].to_bits() == expect.to_bits());
}

/// C01 / C06 (bounded): the AVX2 GATHER kernel (alphabets with more than 8 symbols: Protein). The scored row is the LAST row of a
/// matrix whose allocation is exact (4 rows), so a load that strays past the row leaves the allocation; the table row holds 21
/// arbitrary non-NaN cells; every one of the 32 columns gets the cell of its symbol.
#[kani::proof]
#[kani::unwind(34)]
#[kani::stub(std::arch::x86_64::_mm256_shuffle_epi8, m256_shuffle_epi8)]
#[kani::stub(std::arch::x86_64::_mm256_i32gather_ps, m256_i32gather_ps)]
#[kani::stub(std::arch::x86_64::_mm256_cvtepu8_epi32, m256_cvtepu8_epi32)]
#[kani::stub(std::arch::x86_64::_mm256_permute2f128_ps, m256_permute2f128_ps)]
#[kani::stub(std::arch::x86_64::_mm256_stream_ps, m256_stream_ps)]
#[kani::stub(std::arch::x86_64::_mm256_load_si256, m256_load_si256)]
#[kani::stub(std::arch::x86_64::_mm_sfence, m_sfence)]
fn k_c01_avx2_score_f32_gather_protein_m1() {
    const R: usize = 4; const M: usize = 1;
    let mut sm = unsafe { DenseMatrix::<AminoAcid, U32>::uninitialized(R) };
    let mut r = 0;
    while r < R - 1 { let mut c = 0; while c < 32 { sm[r][c] = Protein::symbols()[20]; c += 1; } r += 1; }
    let mut c = 0;
    while c < 32 { let k: u8 = kani::any(); kani::assume(k < 21); sm[R - 1][c] = Protein::symbols()[k as usize]; c += 1; }
    let seq = StripedSequence::<Protein, U32>::with_wrap_unchecked(sm, 32 * R, M - 1);
    let mut pm = unsafe { DenseMatrix::<f32, U21>::uninitialized(4) };
    let mut c = 0;
    while c < 21 { let x: f32 = kani::any(); kani::assume(!x.is_nan()); pm[0][c] = x; c += 1; }
    // the table has 4 allocated rows (exact allocation) but the motif is its first row only: a 1-row view is built by resizing
    pm.resize(1);
    let mut scores = StripedScores::<f32, U32>::empty();
    *scores.matrix_mut() = unsafe { DenseMatrix::<f32, U32>::uninitialized(1) };
    Avx2::score_f32_rows_into::<Protein, _, _>(&pm, &seq, R - 1..R, &mut scores);
    assert!(scores.matrix().rows() == 1);
    let c: usize = kani::any(); kani::assume(c < 32);
    let expect = 0.0f32 + pm[0][seq.matrix()[R - 1][c].as_index()];
    assert!(scores.matrix()[0][c].to_bits() == expect.to_bits());
}

/// C06: a row range that reaches into the look-ahead rows (e.g. `0..seq.matrix().rows()`, a plausible slip for "all rows") must be
/// REFUSED by the safe wrapper (panic), not handed to the kernel, which would walk M-1 rows past the end of the matrix
/// (defect D16). The matrix allocation is exact (4 rows), so a stray row read leaves the allocation.
#[kani::proof]
#[kani::should_panic]
#[kani::unwind(34)]
#[kani::stub(std::arch::x86_64::_mm256_shuffle_epi8, m256_shuffle_epi8)]
#[kani::stub(std::arch::x86_64::_mm256_adds_epu8, m256_adds_epu8)]
#[kani::stub(std::arch::x86_64::_mm256_broadcastsi128_si256, m256_broadcastsi128_si256)]
#[kani::stub(std::arch::x86_64::_mm256_stream_si256, m256_stream_si256)]
#[kani::stub(std::arch::x86_64::_mm256_load_si256, m256_load_si256)]
#[kani::stub(std::arch::x86_64::_mm_sfence, m_sfence)]
fn k_c06_avx2_score_u8_rows_into_wrap_refused() {
    const R: usize = 3; const M: usize = 2;
    let mut sm = unsafe { DenseMatrix::<Nucleotide, U32>::uninitialized(R + M - 1) };
    let mut r = 0;
    while r < R + M - 1 { let mut c = 0; while c < 32 { sm[r][c] = Nucleotide::A; c += 1; } r += 1; }
    let seq = StripedSequence::<Dna, U32>::with_wrap_unchecked(sm, 32 * R, M - 1);
    let mut pm = unsafe { DenseMatrix::<u8, U5>::uninitialized(4) };
    let mut r = 0;
    while r < 4 { let mut c = 0; while c < 5 { pm[r][c] = 1; c += 1; } r += 1; }
    pm.resize(M);
    let mut scores = StripedScores::<u8, U32>::empty();
    *scores.matrix_mut() = unsafe { DenseMatrix::<u8, U32>::uninitialized(R + M - 1) };
    // every row of the matrix, look-ahead row included: the last scored row would need a row that does not exist
    Avx2::score_u8_rows_into_shuffle::<Dna, _, _>(&pm, &seq, 0..R + M - 1, &mut scores);
}
