//! C01 / C07 / C06 (bounded): the real SSE2 kernels (`score_sse2` through `Sse2::score_rows_into`, `argmax_sse2` through
//! `Sse2::argmax`) on 16-column matrices with fully symbolic cells.
use lightmotif::abc::*;
use lightmotif::dense::*;
use lightmotif::num::*;
use lightmotif::pli::platform::*;
use lightmotif::scores::*;
use lightmotif::seq::*;
use crate::intrinsics::*;

fn any_nuc() -> Nucleotide { let c: u8 = kani::any(); kani::assume(c < 5); Dna::symbols()[c as usize] }

/// C01 (bounded): ONE matrix row with 5 arbitrary non-NaN f32 cells, one sequence row of 16 symbolic symbols: every one of the 16
/// columns gets the cell of its symbol (compare-and-mask accumulation over the 5 symbols, byte -> 32-bit widening by unpacking).
#[kani::proof]
#[kani::unwind(18)]
#[kani::stub(std::arch::x86_64::_mm_stream_ps, m128_stream_ps)]
#[kani::stub(std::arch::x86_64::_mm_sfence, m_sfence)]
fn k_c01_sse2_score_f32_m1() {
    const R: usize = 1; const M: usize = 1;
    let mut sm = unsafe { DenseMatrix::<Nucleotide, U16>::uninitialized(R + M - 1) };
    let mut c = 0;
    while c < 16 { sm[0][c] = any_nuc(); c += 1; }
    let seq = StripedSequence::<Dna, U16>::with_wrap_unchecked(sm, 16 * R, M - 1);
    let mut pm = unsafe { DenseMatrix::<f32, U5>::uninitialized(M) };
    let mut c = 0;
    while c < 5 { let x: f32 = kani::any(); kani::assume(!x.is_nan()); pm[0][c] = x; c += 1; }
    let mut scores = StripedScores::<f32, U16>::empty();
    *scores.matrix_mut() = unsafe { DenseMatrix::<f32, U16>::uninitialized(R) };
    Sse2::score_rows_into::<Dna, U16, _, _>(&pm, &seq, 0..R, &mut scores);
    assert!(scores.matrix().rows() == R);
    let c: usize = kani::any(); kani::assume(c < 16);
    let expect = 0.0f32 + pm[0][seq.matrix()[0][c].as_index()];
    assert!(scores.matrix()[0][c].to_bits() == expect.to_bits());
}

// NOTE: a harness on `argmax_sse2` cannot run: the kernel itself builds a by-value `GenericArray::<u32, C>::default()`, which
// crashes CBMC (invariant violation in simplify_utils.cpp, see DESIGN section 2); the SSE2 arg-maximum is covered by the native sweep only.
