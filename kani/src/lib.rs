//! Kani harnesses on the REAL compiled lightmotif crate (path dependency on /repo/lightmotif, feature `verif-hooks`).
#![allow(unused)]
#[cfg(kani)]
mod abc_tables;
#[cfg(kani)]
mod intrinsics;
#[cfg(kani)]
mod simd_encode;
#[cfg(kani)]
mod simd_max;
#[cfg(kani)]
mod simd_score;
#[cfg(kani)]
mod dense_layout;
#[cfg(kani)]
mod simd_stripe;
#[cfg(kani)]
mod simd_sse2;
