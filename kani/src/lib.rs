//! Kani harnesses on the REAL compiled lightmotif crate (path dependency on /repo/lightmotif).
#![allow(unused)]
#[cfg(kani)]
mod abc_tables;
