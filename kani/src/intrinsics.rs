//! Models of the x86 intrinsics that Kani 0.68 cannot execute (simd_select / simd_reduce / gather / non-temporal stores).
//! TRUSTED (A-X1): each model follows the Intel SDM pseudo-code; `replay intrinsics` compares every model with the host CPU
//! on random and edge vectors (thorough tier).
#![allow(unused)]
use std::arch::x86_64::*;

pub unsafe fn b(x: __m256i) -> [u8; 32] { std::mem::transmute(x) }
pub unsafe fn ib(x: [u8; 32]) -> __m256i { std::mem::transmute(x) }
pub unsafe fn h(x: __m256i) -> [u16; 16] { std::mem::transmute(x) }
pub unsafe fn ih(x: [u16; 16]) -> __m256i { std::mem::transmute(x) }
pub unsafe fn w(x: __m256i) -> [u32; 8] { std::mem::transmute(x) }
pub unsafe fn f(x: __m256) -> [f32; 8] { std::mem::transmute(x) }
pub unsafe fn iff(x: [f32; 8]) -> __m256 { std::mem::transmute(x) }
pub unsafe fn b128(x: __m128i) -> [u8; 16] { std::mem::transmute(x) }
pub unsafe fn ib128(x: [u8; 16]) -> __m128i { std::mem::transmute(x) }

/// VPBLENDVB: r[i] = mask[i] bit 7 ? b[i] : a[i]
pub unsafe fn m256_blendv_epi8(a: __m256i, b_: __m256i, mask: __m256i) -> __m256i {
    let (a, b_, m) = (b(a), b(b_), b(mask));
    let mut r = [0u8; 32];
    let mut i = 0;
    while i < 32 { r[i] = if m[i] & 0x80 != 0 { b_[i] } else { a[i] }; i += 1; }
    ib(r)
}
/// VPTEST (ZF): 1 iff (a AND b) == 0
pub unsafe fn m256_testz_si256(a: __m256i, b_: __m256i) -> i32 {
    let (a, b_) = (b(a), b(b_));
    let mut z = true;
    let mut i = 0;
    while i < 32 { if a[i] & b_[i] != 0 { z = false; } i += 1; }
    z as i32
}
/// VPSHUFB ymm: per 128-bit lane; index bit 7 set -> 0 else src[lane*16 + (idx & 0xF)]
pub unsafe fn m256_shuffle_epi8(a: __m256i, idx: __m256i) -> __m256i {
    let (a, idx) = (b(a), b(idx));
    let mut r = [0u8; 32];
    let mut i = 0;
    while i < 32 { let l = (i / 16) * 16; r[i] = if idx[i] & 0x80 != 0 { 0 } else { a[l + (idx[i] & 0x0F) as usize] }; i += 1; }
    ib(r)
}
/// VPADDUSB: unsigned saturating byte add
pub unsafe fn m256_adds_epu8(a: __m256i, b_: __m256i) -> __m256i {
    let (a, b_) = (b(a), b(b_));
    let mut r = [0u8; 32];
    let mut i = 0;
    while i < 32 { r[i] = a[i].saturating_add(b_[i]); i += 1; }
    ib(r)
}
/// VPMAXUB
pub unsafe fn m256_max_epu8(a: __m256i, b_: __m256i) -> __m256i {
    let (a, b_) = (b(a), b(b_));
    let mut r = [0u8; 32];
    let mut i = 0;
    while i < 32 { r[i] = if a[i] > b_[i] { a[i] } else { b_[i] }; i += 1; }
    ib(r)
}
/// VBROADCASTI128
pub unsafe fn m256_broadcastsi128_si256(a: __m128i) -> __m256i {
    let a = b128(a);
    let mut r = [0u8; 32];
    let mut i = 0;
    while i < 32 { r[i] = a[i % 16]; i += 1; }
    ib(r)
}
/// VMOVNTDQ: aligned non-temporal store (alignment is part of the contract of the instruction: checked here)
pub unsafe fn m256_stream_si256(p: *mut __m256i, a: __m256i) { assert!(p as usize % 32 == 0); *p = a; }
pub unsafe fn m256_stream_ps(p: *mut f32, a: __m256) { assert!(p as usize % 32 == 0); *(p as *mut __m256) = a; }
/// VMOVDQA: aligned load
pub unsafe fn m256_load_si256(p: *const __m256i) -> __m256i { assert!(p as usize % 32 == 0); *p }
pub unsafe fn m_sfence() {}
/// PBLENDVB (SSE4.1 form used through _mm_blendv_epi8 is not used; SSE2 file uses _mm_blendv_ps): r[i] = mask[i] sign ? b : a
pub unsafe fn m128_blendv_ps(a: __m128, b_: __m128, mask: __m128) -> __m128 {
    let (a, b_, m): ([u32; 4], [u32; 4], [u32; 4]) = (std::mem::transmute(a), std::mem::transmute(b_), std::mem::transmute(mask));
    let mut r = [0u32; 4];
    let mut i = 0;
    while i < 4 { r[i] = if m[i] & 0x8000_0000 != 0 { b_[i] } else { a[i] }; i += 1; }
    std::mem::transmute(r)
}
/// VCMPPS with predicate imm8 (only the predicates the library uses are modelled; any other predicate fails the harness)
pub unsafe fn m256_cmp_ps<const IMM8: i32>(a: __m256, b_: __m256) -> __m256 {
    let (a, b_) = (f(a), f(b_));
    let mut r = [0u32; 8];
    let mut i = 0;
    while i < 8 {
        let t = match IMM8 { 0x02 => a[i] <= b_[i], 0x01 => a[i] < b_[i], 0x00 => a[i] == b_[i], 0x0D => a[i] >= b_[i], 0x0E => a[i] > b_[i], _ => { assert!(false); false } };
        r[i] = if t { 0xFFFF_FFFF } else { 0 };
        i += 1;
    }
    std::mem::transmute(r)
}
/// VBLENDVPS
pub unsafe fn m256_blendv_ps(a: __m256, b_: __m256, mask: __m256) -> __m256 {
    let (a, b_, m): ([u32; 8], [u32; 8], [u32; 8]) = (std::mem::transmute(a), std::mem::transmute(b_), std::mem::transmute(mask));
    let mut r = [0u32; 8];
    let mut i = 0;
    while i < 8 { r[i] = if m[i] & 0x8000_0000 != 0 { b_[i] } else { a[i] }; i += 1; }
    std::mem::transmute(r)
}
/// VMAXPS (for non-NaN operands; with a NaN the second operand is returned, as the instruction does)
pub unsafe fn m256_max_ps(a: __m256, b_: __m256) -> __m256 {
    let (a, b_) = (f(a), f(b_));
    let mut r = [0f32; 8];
    let mut i = 0;
    while i < 8 { r[i] = if a[i] > b_[i] { a[i] } else { b_[i] }; i += 1; }
    iff(r)
}
/// VMOVAPS: aligned load
pub unsafe fn m256_load_ps(p: *const f32) -> __m256 { assert!(p as usize % 32 == 0); *(p as *const __m256) }
/// VPMAXSB
pub unsafe fn m256_max_epi8(a: __m256i, b_: __m256i) -> __m256i {
    let (a, b_) = (b(a), b(b_));
    let mut r = [0u8; 32];
    let mut i = 0;
    while i < 32 { r[i] = if (a[i] as i8) > (b_[i] as i8) { a[i] } else { b_[i] }; i += 1; }
    ib(r)
}
/// VPERMPS: r[i] = a[idx[i] & 7]
pub unsafe fn m256_permutevar8x32_ps(a: __m256, idx: __m256i) -> __m256 {
    let (a, idx) = (f(a), w(idx));
    let mut r = [0f32; 8];
    let mut i = 0;
    while i < 8 { r[i] = a[(idx[i] & 7) as usize]; i += 1; }
    iff(r)
}
/// VPERM2F128 imm8
pub unsafe fn m256_permute2f128_ps<const IMM8: i32>(a: __m256, b_: __m256) -> __m256 {
    let (a, b_) = (f(a), f(b_));
    let sel = |c: i32| -> [f32; 4] {
        if c & 8 != 0 { [0.0; 4] } else { match c & 3 { 0 => [a[0], a[1], a[2], a[3]], 1 => [a[4], a[5], a[6], a[7]], 2 => [b_[0], b_[1], b_[2], b_[3]], _ => [b_[4], b_[5], b_[6], b_[7]] } }
    };
    let lo = sel(IMM8 & 0xF); let hi = sel((IMM8 >> 4) & 0xF);
    iff([lo[0], lo[1], lo[2], lo[3], hi[0], hi[1], hi[2], hi[3]])
}

// ---- SSE2 --------------------------------------------------------------------------------------------------------------
/// MOVNTPS (aligned non-temporal store of 4 f32)
pub unsafe fn m128_stream_ps(p: *mut f32, a: __m128) { assert!(p as usize % 16 == 0); *(p as *mut __m128) = a; }
/// CMPLEPS: lane mask a[i] <= b[i] (false on NaN)
pub unsafe fn m128_cmple_ps(a: __m128, b_: __m128) -> __m128 {
    let (a, b_): ([f32; 4], [f32; 4]) = (std::mem::transmute(a), std::mem::transmute(b_));
    let mut r = [0u32; 4];
    let mut i = 0;
    while i < 4 { r[i] = if a[i] <= b_[i] { 0xFFFF_FFFF } else { 0 }; i += 1; }
    std::mem::transmute(r)
}

/// VGATHERDPS (all lanes enabled): r[i] = *(base + idx[i] * SCALE bytes); every lane is a checked read
pub unsafe fn m256_i32gather_ps<const SCALE: i32>(p: *const f32, idx: __m256i) -> __m256 {
    let ix: [i32; 8] = std::mem::transmute(idx);
    let mut r = [0f32; 8];
    let mut i = 0;
    while i < 8 { r[i] = *((p as *const u8).offset(ix[i] as isize * SCALE as isize) as *const f32); i += 1; }
    std::mem::transmute(r)
}
/// VPMOVZXBD: zero-extend the low 8 bytes to 8 x i32 (not used by the library today; modelled so that a kernel rewritten with it
/// can still be checked instead of stopping at "simd_cast is not supported")
pub unsafe fn m256_cvtepu8_epi32(a: __m128i) -> __m256i {
    let x = b128(a);
    let mut r = [0i32; 8];
    let mut i = 0;
    while i < 8 { r[i] = x[i] as i32; i += 1; }
    std::mem::transmute(r)
}
