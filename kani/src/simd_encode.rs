//! C05 / C06 (bounded): the real AVX2 and SSE2 encoders on fully symbolic byte strings covering one vector block plus a
//! scalar tail: same outcome as the definition (Ok iff all bytes valid; symbol i = symbol of byte i; Err carries the FIRST
//! offending byte); every pointer access checked by Kani.
use lightmotif::abc::*;
use lightmotif::pli::platform::*;
use crate::intrinsics::*;

fn spec_first_invalid<const N: usize>(seq: &[u8; N], letters: &[u8]) -> Option<usize> {
    let mut first = None;
    let mut i = N;
    while i > 0 { i -= 1; let mut ok = false; let mut k = 0; while k < letters.len() { if letters[k] == seq[i] { ok = true; } k += 1; } if !ok { first = Some(i); } }
    first
}

#[kani::proof]
#[kani::unwind(36)]
#[kani::stub(std::arch::x86_64::_mm256_blendv_epi8, m256_blendv_epi8)]
#[kani::stub(std::arch::x86_64::_mm256_testz_si256, m256_testz_si256)]
fn k_c05_avx2_encode_dna_34() {
    const N: usize = 34;
    let seq: [u8; N] = kani::any();
    let mut dst = [Nucleotide::N; N];
    let r = Avx2::encode_into::<Dna>(&seq, &mut dst);
    let first = spec_first_invalid(&seq, b"ACTGN");
    match (r, first) {
        (Ok(()), None) => { let i: usize = kani::any(); kani::assume(i < N); assert!(dst[i].as_ascii() == seq[i]); }
        (Err(e), Some(p)) => assert!(e.0 == seq[p] as char),
        (Ok(()), Some(_)) => panic!("accepted an invalid byte"),
        (Err(_), None) => panic!("rejected a valid string"),
    }
}

#[kani::proof]
#[kani::unwind(20)]
fn k_c05_sse2_encode_dna_18() {
    const N: usize = 18;
    let seq: [u8; N] = kani::any();
    let mut dst = [Nucleotide::N; N];
    let r = Sse2::encode_into::<Dna>(&seq, &mut dst);
    let first = spec_first_invalid(&seq, b"ACTGN");
    match (r, first) {
        (Ok(()), None) => { let i: usize = kani::any(); kani::assume(i < N); assert!(dst[i].as_ascii() == seq[i]); }
        (Err(e), Some(p)) => assert!(e.0 == seq[p] as char),
        (Ok(()), Some(_)) => panic!("accepted an invalid byte"),
        (Err(_), None) => panic!("rejected a valid string"),
    }
}

/// C06 (bounded): `Encode::encode_raw` (unsafe `Vec::set_len` on an uninitialised buffer) through the generic pipeline and through
/// the dispatcher, all 6-byte strings: the vector handed back has exactly the input's length, is fully written on success, and
/// every access stays inside its allocation.
#[kani::proof]
#[kani::unwind(40)]
#[kani::stub(std::arch::x86_64::_mm256_blendv_epi8, m256_blendv_epi8)]
#[kani::stub(std::arch::x86_64::_mm256_testz_si256, m256_testz_si256)]
fn k_c06_encode_raw_6() {
    use lightmotif::pli::{Encode, Pipeline};
    const N: usize = 6;
    let seq: [u8; N] = kani::any();
    let first = spec_first_invalid(&seq, b"ACTGN");
    let r = Pipeline::<Dna, _>::generic().encode_raw(&seq[..]);
    match (r, first) {
        (Ok(v), None) => { assert!(v.len() == N); let i: usize = kani::any(); kani::assume(i < N); assert!(v[i].as_ascii() == seq[i]); }
        (Err(e), Some(p)) => assert!(e.0 == seq[p] as char),
        (Ok(_), Some(_)) => panic!("accepted an invalid byte"),
        (Err(_), None) => panic!("rejected a valid string"),
    }
}

/// SHORT inputs (less than one vector): the SIMD encoders must fall back to byte-wise work without touching anything past
/// the `N`-byte source and destination (all 5-byte strings through SSE2, all 7-byte strings through AVX2).
#[kani::proof]
#[kani::unwind(20)]
fn k_c05_sse2_encode_dna_5() {
    const N: usize = 5;
    let seq: [u8; N] = kani::any();
    let mut dst = [Nucleotide::N; N];
    let r = Sse2::encode_into::<Dna>(&seq, &mut dst);
    let first = spec_first_invalid(&seq, b"ACTGN");
    match (r, first) {
        (Ok(()), None) => { let i: usize = kani::any(); kani::assume(i < N); assert!(dst[i].as_ascii() == seq[i]); }
        (Err(e), Some(p)) => assert!(e.0 == seq[p] as char),
        (Ok(()), Some(_)) => panic!("accepted an invalid byte"),
        (Err(_), None) => panic!("rejected a valid string"),
    }
}

#[kani::proof]
#[kani::unwind(36)]
#[kani::stub(std::arch::x86_64::_mm256_blendv_epi8, m256_blendv_epi8)]
#[kani::stub(std::arch::x86_64::_mm256_testz_si256, m256_testz_si256)]
fn k_c05_avx2_encode_dna_7() {
    const N: usize = 7;
    let seq: [u8; N] = kani::any();
    let mut dst = [Nucleotide::N; N];
    let r = Avx2::encode_into::<Dna>(&seq, &mut dst);
    let first = spec_first_invalid(&seq, b"ACTGN");
    match (r, first) {
        (Ok(()), None) => { let i: usize = kani::any(); kani::assume(i < N); assert!(dst[i].as_ascii() == seq[i]); }
        (Err(e), Some(p)) => assert!(e.0 == seq[p] as char),
        (Ok(()), Some(_)) => panic!("accepted an invalid byte"),
        (Err(_), None) => panic!("rejected a valid string"),
    }
}

/// C05 / C06 (bounded): a length ONE SHORT of a whole vector (31 = 32 - 1): the vector loop must not run (its 32-byte load and store
/// would leave both slices by one byte); all 31-byte inputs
#[kani::proof]
#[kani::unwind(36)]
#[kani::stub(std::arch::x86_64::_mm256_blendv_epi8, m256_blendv_epi8)]
#[kani::stub(std::arch::x86_64::_mm256_testz_si256, m256_testz_si256)]
fn k_c05_avx2_encode_dna_31() {
    const N: usize = 31;
    let seq: [u8; N] = kani::any();
    let mut dst = [Nucleotide::N; N];
    let r = Avx2::encode_into::<Dna>(&seq, &mut dst);
    let first = spec_first_invalid(&seq, b"ACTGN");
    match (r, first) {
        (Ok(()), None) => { let i: usize = kani::any(); kani::assume(i < N); assert!(dst[i].as_ascii() == seq[i]); }
        (Err(e), Some(p)) => assert!(e.0 == seq[p] as char),
        (Ok(()), Some(_)) => panic!("accepted an invalid byte"),
        (Err(_), None) => panic!("rejected a valid string"),
    }
}
