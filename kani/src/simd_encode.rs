//! C05 / C06 (bounded): the real AVX2 and SSE2 encoders on fully symbolic byte strings covering one vector block plus a
//! scalar tail: same outcome as the definition (Ok iff all bytes valid; symbol i = symbol of byte i; Err carries the FIRST
//! offending byte); every pointer access checked by Kani.
use lightmotif::abc::*;
use lightmotif::pli::platform::*;
use crate::intrinsics::*;

fn spec_first_invalid<const N: usize>(seq: &[u8; N], letters: &[u8]) -> Option<usize> {
    let mut first = None;
    let mut i = N;
    while i > 0 { i -= 1; let mut ok = false; let mut k = 0; while k < letters.len() { if letters[k] == seq[i] { ok = true; } k += 1; } if !ok { first = Some(i); } }
    first
}

#[kani::proof]
#[kani::unwind(36)]
#[kani::stub(std::arch::x86_64::_mm256_blendv_epi8, m256_blendv_epi8)]
#[kani::stub(std::arch::x86_64::_mm256_testz_si256, m256_testz_si256)]
fn k_c05_avx2_encode_dna_34() {
    const N: usize = 34;
    let seq: [u8; N] = kani::any();
    let mut dst = [Nucleotide::N; N];
    let r = Avx2::encode_into::<Dna>(&seq, &mut dst);
    let first = spec_first_invalid(&seq, b"ACTGN");
    match (r, first) {
        (Ok(()), None) => { let i: usize = kani::any(); kani::assume(i < N); assert!(dst[i].as_ascii() == seq[i]); }
        (Err(e), Some(p)) => assert!(e.0 == seq[p] as char),
        (Ok(()), Some(_)) => panic!("accepted an invalid byte"),
        (Err(_), None) => panic!("rejected a valid string"),
    }
}

#[kani::proof]
#[kani::unwind(20)]
fn k_c05_sse2_encode_dna_18() {
    const N: usize = 18;
    let seq: [u8; N] = kani::any();
    let mut dst = [Nucleotide::N; N];
    let r = Sse2::encode_into::<Dna>(&seq, &mut dst);
    let first = spec_first_invalid(&seq, b"ACTGN");
    match (r, first) {
        (Ok(()), None) => { let i: usize = kani::any(); kani::assume(i < N); assert!(dst[i].as_ascii() == seq[i]); }
        (Err(e), Some(p)) => assert!(e.0 == seq[p] as char),
        (Ok(()), Some(_)) => panic!("accepted an invalid byte"),
        (Err(_), None) => panic!("rejected a valid string"),
    }
}
