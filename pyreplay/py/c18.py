# C18: "indexing with any integer behaves like a Python sequence (0..len-1 and -len..-1 return the element, anything else
# raises IndexError, never a panic), len() is the logical length, and a memoryview has shape / strides such that element
# [i][j] is the logical element it stands for"
import json, sys
import lightmotif

fails = []
cases = 0

def fail(unit, what, **kw):
    d = {"unit": unit, "what": what}
    d.update(kw)
    fails.append(d)

def check_index(unit, obj, expected, ctor):
    """expected: list of logical elements"""
    global cases
    n = len(expected)
    try:
        if len(obj) != n:
            fail(unit, "len() = %d, logical length %d" % (len(obj), n), ctor=ctor)
    except BaseException as e:
        fail(unit, "len() raised %s" % type(e).__name__, ctor=ctor)
    # every integer: also those that do not fit a machine word (a Python sequence raises IndexError for them, not OverflowError)
    for i in list(range(-n - 3, n + 3)) + [2 ** 63 - 1, -2 ** 63, 2 ** 63, 2 ** 70, -2 ** 70]:
        cases += 1
        try:
            got = obj[i]
            if not (-n <= i < n):
                fail(unit, "index %d out of range returned a value instead of IndexError" % i, ctor=ctor, index=i)
            else:
                want = expected[i]
                if isinstance(want, float) or isinstance(got, float):
                    ok = (got == want) or (got != got and want != want)
                else:
                    ok = list(got) == list(want) if hasattr(want, "__len__") else got == want
                if not ok:
                    fail(unit, "index %d returned %r, expected %r" % (i, got, want), ctor=ctor, index=i)
        except IndexError:
            if -n <= i < n:
                fail(unit, "index %d in range raised IndexError" % i, ctor=ctor, index=i)
        except BaseException as e:   # pyo3_runtime.PanicException derives from BaseException
            fail(unit, "index %d raised %s (panic?)" % (i, type(e).__name__), ctor=ctor, index=i)

def run(width):
    global cases
    A, C, T, G, N = range(5)
    text = ("ATGCATTGCAGC" * 4)[: 3 * width + 5]
    # --- EncodedSequence
    enc = lightmotif.EncodedSequence(text)
    check_index("py_encoded_getitem", enc, ["ACTGN".index(c) for c in text], "EncodedSequence(%r)" % text)
    # --- matrices
    cols = {"A": list(range(1, width + 1)), "C": [2] * width, "G": [3] * width, "T": list(range(width, 0, -1))}
    cm = lightmotif.CountMatrix(cols)
    rows = [[cols["A"][i], cols["C"][i], cols["T"][i], cols["G"][i], 0] for i in range(width)]
    check_index("py_count_getitem", cm, rows, "CountMatrix(width=%d)" % width)
    wm = cm.normalize(0.1)
    try:
        wrows = [list(wm[i]) for i in range(width)]
        check_index("py_weight_getitem", wm, wrows, "WeightMatrix(width=%d)" % width)
    except BaseException as e:
        fail("py_weight_getitem", "wm[i] raised %s" % type(e).__name__, ctor="width=%d" % width)
    sm = wm.log_odds()
    try:
        srows = [list(sm[i]) for i in range(width)]
        check_index("py_scoring_getitem", sm, srows, "ScoringMatrix(width=%d)" % width)
        # buffer view of the scoring matrix: element [i][j] is entry (position i, symbol j)
        mem = memoryview(sm)
        cases += 1
        if tuple(mem.shape) != (width, 5):
            fail("py_scoring_shape", "memoryview shape %r, logical shape %r" % (tuple(mem.shape), (width, 5)), ctor="width=%d" % width)
        else:
            for i in range(width):
                for j in range(5):
                    a, b = mem[i, j], srows[i][j]
                    if not (a == b or (a != a and b != b)):
                        fail("py_scoring_shape", "view[%d,%d]=%r != entry %r" % (i, j, a, b), ctor="width=%d" % width)
    except BaseException as e:
        fail("py_scoring_getitem", "raised %s: %s" % (type(e).__name__, e), ctor="width=%d" % width)
    # --- striped sequence + scores
    st = lightmotif.stripe(text)
    try:
        mem = memoryview(st)
        cases += 1
        ncols, nrows = mem.shape
        for p, ch in enumerate(text):
            if mem[p // nrows_seq(st, text), p % nrows_seq(st, text)] != "ACTGN".index(ch):
                fail("py_striped_shape", "striped view does not hold symbol %d at (col, row)" % p, ctor=text)
                break
    except BaseException as e:
        fail("py_striped_shape", "raised %s: %s" % (type(e).__name__, e), ctor=text)
    # views taken AFTER the striped sequence was reused for scoring / scanning must still expose exactly the logical
    # contents: shape (32, sequence rows), no look-ahead rows, same symbols
    try:
        st2 = lightmotif.stripe(text)
        before = memoryview(st2).shape
        sm.calculate(st2)
        list(lightmotif.scan(sm, st2, threshold=-1000.0)) if hasattr(lightmotif, "scan") else None
        mem2 = memoryview(st2)
        cases += 1
        if tuple(mem2.shape) != tuple(before):
            fail("py_striped_getbuffer", "view shape %r after scoring, %r before (look-ahead rows visible)" % (tuple(mem2.shape), tuple(before)), ctor="L=%d,M=%d" % (len(text), width))
        else:
            R = nrows_seq(st2, text)
            for p_, ch in enumerate(text):
                if mem2[p_ // R, p_ % R] != "ACTGN".index(ch):
                    fail("py_striped_getbuffer", "view after scoring does not hold symbol %d" % p_, ctor=text)
                    break
        c2 = st2.copy() if hasattr(st2, "copy") else None
        if c2 is not None and tuple(memoryview(c2).shape) != tuple(before):
            fail("py_striped_getbuffer", "view of a copy has shape %r" % (tuple(memoryview(c2).shape),), ctor=text)
    except BaseException as e:
        fail("py_striped_getbuffer", "raised %s: %s" % (type(e).__name__, e), ctor=text)
    try:
        scores = sm.calculate(st)
        logical = list(scores)       # iteration protocol via __getitem__/__len__ or __iter__
        n = len(text) - width + 1
        check_index("py_scores_getitem", scores, [scores[i] for i in range(max(n, 0))], "StripedScores(L=%d,M=%d)" % (len(text), width))
        if len(scores) != max(n, 0):
            fail("py_scores_len", "len(scores)=%d, L-M+1=%d" % (len(scores), n), ctor="L=%d,M=%d" % (len(text), width))
    except BaseException as e:
        fail("py_scores_getitem", "raised %s: %s" % (type(e).__name__, e), ctor="L=%d,M=%d" % (len(text), width))

def run_held_view(width, length):
    """a view taken BEFORE the striped sequence is reused for scoring must keep showing the logical contents afterwards
    (scoring with a long motif appends look-ahead rows: if that reallocates the matrix the old view dangles)"""
    global cases
    text = ("ATGCATTGCAGCTTAGC" * (length // 17 + 1))[:length]
    cols = {"A": list(range(1, width + 1)), "C": [2] * width, "G": [3] * width, "T": list(range(width, 0, -1))}
    sm = lightmotif.CountMatrix(cols).normalize(0.1).log_odds()
    bad = 0
    try:
        short = lightmotif.CountMatrix({"A": [1, 2], "C": [2, 2], "G": [3, 3], "T": [2, 1]}).normalize(0.1).log_odds()
        for rep in range(20):
            st = lightmotif.stripe(text)
            if rep % 2 == 1:
                short.calculate(st)          # history: the sequence already carries look-ahead rows when the view is taken
            view = memoryview(st)
            want = view.tolist()
            try:
                sm.calculate(st)
            except BufferError:
                # refusing to resize while a view is exported is the Python convention (bytearray does the same): the view stays valid
                pass
            junk = [bytearray(b"\xff" * 64 * k) for k in range(1, 40)]     # recycle freed blocks
            cases += 1
            if view.tolist() != want:
                bad += 1
            del junk
            # two views, one of them released before the sequence is reused: the survivor must stay valid all the same
            # (an export COUNT, not a flag)
            st2 = lightmotif.stripe(text)
            v1 = memoryview(st2)
            v2 = memoryview(st2)
            want2 = v2.tolist()
            v1.release()
            try:
                sm.calculate(st2)
            except BufferError:
                pass
            junk = [bytearray(b"\xff" * 64 * k) for k in range(1, 40)]
            cases += 1
            if v2.tolist() != want2:
                bad += 1
            del junk
        if bad:
            fail("py_striped_view_held", "%d of 20 views taken before scoring changed contents after scoring (dangling buffer)" % bad, ctor="L=%d,M=%d" % (length, width))
    except BaseException as e:
        fail("py_striped_view_held", "raised %s: %s" % (type(e).__name__, e), ctor="L=%d,M=%d" % (length, width))

def prod(t):
    r = 1
    for x in t:
        r *= x
    return r

def run_edge_views():
    """empty / degenerate objects must still export a (possibly empty) view - never a panic - and the byte length of every view
    is shape x itemsize (no look-ahead rows or padding reachable through tobytes())"""
    global cases
    cols = {"A": [1, 2, 3], "C": [2, 2, 2], "G": [3, 3, 3], "T": [3, 2, 1]}
    sm = lightmotif.CountMatrix(cols).normalize(0.1).log_odds()
    objs = []
    for text in ("", "A", "ACGTACGTAC", "ACGT" * 20):
        objs.append(("py_striped_getbuffer", "stripe(%r)" % text, lambda text=text: lightmotif.stripe(text)))
        objs.append(("py_scores_getbuffer", "scores(L=%d,M=3)" % len(text), lambda text=text: sm.calculate(lightmotif.stripe(text))))
        def scored(text=text):
            st = lightmotif.stripe(text); sm.calculate(st); return st
        objs.append(("py_striped_getbuffer", "stripe(%r) after scoring" % text, scored))
        objs.append(("py_encoded_getbuffer", "EncodedSequence(%r)" % text, lambda text=text: lightmotif.EncodedSequence(text)))
    objs.append(("py_scoring_shape", "ScoringMatrix(width=3)", lambda: sm))
    for unit, ctor, mk in objs:
        cases += 1
        try:
            obj = mk()
            mem = memoryview(obj)
            want = prod(mem.shape) * mem.itemsize
            if mem.nbytes != want:
                fail(unit, "view reports %d bytes for shape %r x itemsize %d = %d" % (mem.nbytes, tuple(mem.shape), mem.itemsize, want), ctor=ctor)
        except BaseException as e:
            fail(unit, "memoryview raised %s: %s" % (type(e).__name__, str(e)[:80]), ctor=ctor)

def run_protein_views():
    """protein matrices: 21 columns in rows of 24 floats - element [i][j] of the view must be entry (i, j)"""
    global cases
    letters = "ACDEFGHIKLMNPQRSTVWY"
    for width in (1, 2, 3, 7):
        cols = {ch: [float((k * 7 + i * 3) % 11) + 0.25 for i in range(width)] for k, ch in enumerate(letters)}
        try:
            sm = lightmotif.ScoringMatrix(cols, protein=True)
            mem = memoryview(sm)
            cases += 1
            if tuple(mem.shape) != (width, 21):
                fail("py_scoring_shape", "protein view shape %r, logical shape %r" % (tuple(mem.shape), (width, 21)), ctor="protein width=%d" % width)
                continue
            for i in range(width):
                row = list(sm[i])
                for j in range(21):
                    a, b = mem[i, j], row[j]
                    if not (a == b or (a != a and b != b)):
                        fail("py_scoring_shape", "protein view[%d,%d]=%r != entry %r" % (i, j, a, b), ctor="protein width=%d" % width)
                        break
                for k, ch in enumerate(letters):
                    if cols[ch][i] not in row:
                        fail("py_scoring_getitem", "row %d of a protein matrix does not hold the value given for %s" % (i, ch), ctor="protein width=%d" % width)
                        break
        except BaseException as e:
            fail("py_scoring_shape", "protein matrix: raised %s: %s" % (type(e).__name__, str(e)[:80]), ctor="protein width=%d" % width)

def run_flat_consumers():
    """consumers that ask for a flat (strides-less) buffer: a padded / column-major object must refuse them, or hand out exactly
    the logical bytes - never row padding, look-ahead rows or uninitialised memory"""
    global cases
    import binascii, struct
    cols = {"A": [1.0, 10.0, 20.0], "C": [2.0, 11.0, 21.0], "G": [3.0, 12.0, 22.0], "T": [4.0, 13.0, 23.0]}
    sm = lightmotif.ScoringMatrix(cols)
    logical = b"".join(struct.pack("f", x) for i in range(3) for x in sm[i])
    import io
    def bio_write(o):
        b = io.BytesIO(); b.write(o); return b.getvalue()
    consumers = (("binascii.hexlify", lambda o: binascii.unhexlify(binascii.hexlify(o))), ("bytes.join", lambda o: b"".join([o])), ("BytesIO.write", bio_write))
    text = "ACGTTGCA" * 5
    st = lightmotif.stripe(text)
    rows_ = (len(text) + 31) // 32
    st_logical = bytes("ACTGN".index(text[c * rows_ + r]) if c * rows_ + r < len(text) else 4 for c in range(32) for r in range(rows_))
    sc = sm.calculate(lightmotif.stripe(text))
    objs = (("py_scoring_getbuffer", "ScoringMatrix(width=3)", sm, logical), ("py_striped_getbuffer", "stripe(L=40)", st, st_logical), ("py_scores_getbuffer", "scores(L=40,M=3)", sc, None))
    for unit, ctor, obj, want in objs:
        if want is None:
            try:
                mv = memoryview(obj); want = b"".join(struct.pack("f", mv[i, j]) for i in range(mv.shape[0]) for j in range(mv.shape[1]))
            except BaseException:
                continue
        for name, fn in consumers:
            cases += 1
            try:
                got = fn(obj)
                if bytes(got) != want:
                    fail(unit, "%s returned %d bytes that are not the %d logical bytes in view order (padding / layout visible to a consumer that did not ask for strides)" % (name, len(got), len(want)), ctor=ctor)
            except (TypeError, BufferError, ValueError):
                pass
            except BaseException as e:
                fail(unit, "%s raised %s" % (name, type(e).__name__), ctor=ctor)

def run_distribution_views():
    """'a memoryview of the object ... is the logical element it stands for - ... value of the survival function': the view of
    `m.score_distribution` must be the survival function OF m, whatever m's history (taken from another matrix by reverse
    complement after that one's distribution was computed, asked twice, ...). Oracle: a history-free matrix with the same entries
    and background, built through the constructor."""
    global cases
    def fresh_of(m, width, bg):
        rows = [list(m[i]) for i in range(width)]
        vals = {ch: [rows[i]["ACTGN".index(ch)] for i in range(width)] for ch in "ACTGN"}
        return lightmotif.ScoringMatrix(vals, background=bg)
    def sf(m):
        return memoryview(m.score_distribution).tolist()
    bgs = [None, {"A": 0.5, "C": 0.125, "G": 0.125, "T": 0.25}, {"A": 0.125, "C": 0.25, "G": 0.5, "T": 0.125}, {"A": 0.25, "C": 0.125, "G": 0.125, "T": 0.5}]
    for bi, bg in enumerate(bgs):
        for width in (1, 2, 3, 6):
            vals = {"A": [1.5 - 0.5 * i for i in range(width)], "C": [-2.0 + 0.25 * i for i in range(width)],
                    "G": [0.5 * ((i * 3) % 4) - 1.0 for i in range(width)], "T": [-0.75 - 0.5 * (i % 3) for i in range(width)]}
            for history in ("rc-first", "dist-first", "dist-twice"):
                ctor = "background #%d, width %d, history %s" % (bi, width, history)
                try:
                    sm = lightmotif.ScoringMatrix(vals, background=bg)
                    if history != "rc-first":
                        sf(sm)
                    if history == "dist-twice":
                        sf(sm)
                    rc = sm.reverse_complement()
                    cases += 1
                    for (what, m) in (("the matrix itself", sm), ("its reverse complement", rc), ("the reverse complement of its reverse complement", rc.reverse_complement())):
                        got, want = sf(m), sf(fresh_of(m, width, bg))
                        if len(got) != len(want) or any(not (a == b or abs(a - b) <= 1e-12) for a, b in zip(got, want)):
                            fail("py_distribution_view", "survival-function view of %s differs from that of a fresh matrix with the same entries and background (%d values, first difference at %s)"
                                 % (what, len(got), next((k for k, (a, b) in enumerate(zip(got, want)) if a != b), "length")), ctor=ctor)
                            break
                except BaseException as e:
                    fail("py_distribution_view", "raised %s: %s" % (type(e).__name__, e), ctor=ctor)

def nrows_seq(st, text):
    return (len(text) + 31) // 32

RC = 0
if MODE in ("sweep", "search"):
    for w in (1, 2, 5, 7, 9, 15):
        run(w)
    for (w, l) in ((3, 100), (40, 100), (70, 700)):
        run_held_view(w, l)
    run_edge_views()
    run_protein_views()
    run_flat_consumers()
    run_distribution_views()
    want = ARG if MODE == "search" and ARG not in ("", "C18") else None
    shown = set()
    for f in fails:
        if want and not f["unit"].startswith(want):
            continue
        if f["unit"] in shown:
            continue
        shown.add(f["unit"])
        print("FAIL " + json.dumps(f, separators=(",", ":")))
        RC = 1
    print("sweep C18 cases=%d failing_units=%d" % (cases, len(shown)))
elif MODE == "replay":
    txt = open(ARG).read()
    d = json.loads(txt)
    inp = d.get("input") or {}
    unit = inp.get("unit", "")
    for w in (1, 2, 5, 7, 9, 15):
        run(w)
    for (w, l) in ((3, 100), (40, 100), (70, 700)):
        run_held_view(w, l)
    run_edge_views()
    run_protein_views()
    run_flat_consumers()
    run_distribution_views()
    still = [f for f in fails if f["unit"] == unit]
    if still:
        print("replay: STILL FAILS: " + still[0]["what"])
        RC = 1
    else:
        print("replay: input no longer fails")
else:
    print("usage: pyreplay sweep|search|replay")
    RC = 2
