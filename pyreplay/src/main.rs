//! Native replay for the Python-facing properties (C18): embeds CPython exactly like /repo/lightmotif-py's own
//! `tests/unittest.rs`, registers the REAL extension module built from /repo's working tree, and runs a Python
//! script (py/c18.py) that compares indexing / len / memoryview behaviour with the definitions.
//!   pyreplay sweep C18            prints `FAIL {json}` lines, exit 1 on any
//!   pyreplay replay <file.json>   re-runs the case named in the replay file
use std::path::Path;

use pyo3::prelude::*;
use pyo3::types::{PyDict, PyList, PyModule};

fn main() -> PyResult<()> {
    let args: Vec<String> = std::env::args().collect();
    let mode = args.get(1).cloned().unwrap_or_default();
    let arg = args.get(2).cloned().unwrap_or_default();
    let script = Path::new(env!("CARGO_MANIFEST_DIR")).join("py").join("c18.py");
    let code = std::fs::read_to_string(&script).expect("py/c18.py");
    std::panic::set_hook(Box::new(|_| {}));
    pyo3::prepare_freethreaded_python();
    let rc = Python::with_gil(|py| -> PyResult<i32> {
        let sys = py.import_bound("sys")?;
        sys.getattr("path")?.downcast::<PyList>()?.insert(0, "/repo/lightmotif-py")?;
        let module = PyModule::new_bound(py, "lightmotif.lib")?;
        lightmotif_py::init(py, &module).unwrap();
        sys.getattr("modules")?.downcast::<PyDict>()?.set_item("lightmotif.lib", module)?;
        let globals = PyDict::new_bound(py);
        globals.set_item("MODE", mode.as_str())?;
        globals.set_item("ARG", arg.as_str())?;
        py.run_bound(&code, Some(&globals), None)?;
        let rc: i32 = globals.get_item("RC")?.map(|x| x.extract().unwrap_or(2)).unwrap_or(2);
        Ok(rc)
    })?;
    std::process::exit(rc);
}
