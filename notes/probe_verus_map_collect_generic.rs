// probe: `verus probe_verus_map_collect_generic.rs` -> 1 verified, 3 errors
use vstd::prelude::*;
verus! {
pub struct MC { pub row: usize, pub col: usize }
pub struct S<T> { pub n: usize, pub t: T }
pub trait ME: Copy {}
pub struct S0 { pub n: usize }
impl S0 {
    // non-generic item: PROVED
    fn h0(&self, w: Vec<MC>) -> (r: Vec<usize>)
    {
        let ghost v0 = w@;
        let out: Vec<usize> = w.into_iter().map(|m: MC| -> (o: usize) ensures o == 0 { 0 }).collect();
        assert(out@.len() == v0.len());
        out
    }
}
// the same body inside generic items: the three assertions below FAIL (verus 0.2026.09.13)
impl<T> S<T> {
    fn h1(&self, w: Vec<MC>) -> (r: Vec<usize>)
    {
        let ghost v0 = w@;
        let out: Vec<usize> = w.into_iter().map(|m: MC| -> (o: usize) ensures o == 0 { 0 }).collect();
        assert(out@.len() == v0.len());
        out
    }
}
impl<T: ME> S<T> {
    fn h2(&self, w: Vec<MC>) -> (r: Vec<usize>)
    {
        let ghost v0 = w@;
        let out: Vec<usize> = w.into_iter().map(|m: MC| -> (o: usize) ensures o == 0 { 0 }).collect();
        assert(out@.len() == v0.len());
        out
    }
}
impl<T: ME + PartialOrd> S<T> {
    fn h3(&self, w: Vec<MC>) -> (r: Vec<usize>)
    {
        let ghost v0 = w@;
        let out: Vec<usize> = w.into_iter().map(|m: MC| -> (o: usize) ensures o == 0 { 0 }).collect();
        assert(out@.len() == v0.len());
        out
    }
}
}
fn main(){}
