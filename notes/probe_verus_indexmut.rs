use vstd::prelude::*;
use vstd::std_specs::ops::*; use vstd::std_specs::core::IndexSpecImpl;
use std::ops::{Index, IndexMut};
verus! {

pub struct DenseMatrix<T> { pub data: Vec<Vec<T>>, pub cols: usize }

impl<T: Copy> View for DenseMatrix<T> {
    type V = Seq<Seq<T>>;
    closed spec fn view(&self) -> Seq<Seq<T>> { Seq::new(self.data.len() as nat, |i: int| self.data[i]@) }
}

impl<T: Copy> IndexSpecImpl<usize> for DenseMatrix<T> {
    open spec fn index_req(&self, i: &usize) -> bool { *i < self@.len() }
}

impl<T: Copy> Index<usize> for DenseMatrix<T> {
    type Output = [T];
    #[verifier::external_body]
    fn index(&self, index: usize) -> (r: &[T])
        ensures r@ == self@[index as int]
    { self.data[index].as_slice() }
}

impl<T: Copy> IndexMut<usize> for DenseMatrix<T> {
    #[verifier::external_body]
    fn index_mut(&mut self, index: usize) -> (r: &mut [T])
        ensures r@ == old(self)@[index as int],
                final(self)@ == old(self)@.update(index as int, final(r)@),
    { self.data[index].as_mut_slice() }
}

fn test(m: &mut DenseMatrix<u8>)
    requires old(m)@.len() == 3, forall|i:int| 0<=i<3 ==> old(m)@[i].len() == 4
    ensures final(m)@[0][1] == old(m)@[1][2], final(m)@.len() == 3
{
    let x = m[1][2];
    m[0][1] = x;
}

} // verus!
fn main() {}
