use vstd::prelude::*;
use vstd::std_specs::ops::*;
use std::ops::AddAssign;
verus! {

pub open spec fn fold<T: AddAssignSpec<T>>(init: T, s: Seq<T>) -> T
    decreases s.len()
{
    if s.len() == 0 { init } else { *(&fold(init, s.drop_last())).add_assign_spec(s.last()) }
}

fn sum<T: Copy + Default + AddAssign>(v: &Vec<T>) -> (r: T)
    requires forall|a: T, b: T| a.add_assign_req(b),
{
    let mut score = T::default();
    for j in 0..v.len()
    {
        score += v[j];
    }
    score
}

fn sum_u8(v: &Vec<u8>) -> (r: u8)
{
    let mut score = 0u8;
    for j in 0..v.len()
    {
        score += v[j];
    }
    score
}
} // verus!
fn main() {}
