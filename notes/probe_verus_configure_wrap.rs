use vstd::prelude::*;
use vstd::std_specs::ops::*; use vstd::std_specs::core::IndexSpecImpl;
use std::ops::{Index, IndexMut};
verus! {

// ---------- stand-in prelude (trusted environment) ----------
pub trait Unsigned { const USIZE: usize; }
pub trait Symbol: Copy + Sized { }
pub trait Alphabet: Sized {
    type Symbol: Symbol;
    spec fn default_symbol_spec() -> Self::Symbol;
    fn default_symbol() -> (r: Self::Symbol) ensures r == Self::default_symbol_spec();
}

pub struct DenseMatrix<T, C> { pub data: Vec<Vec<T>>, pub c: core::marker::PhantomData<C> }

impl<T: Copy, C: Unsigned> View for DenseMatrix<T, C> {
    type V = Seq<Seq<T>>;
    closed spec fn view(&self) -> Seq<Seq<T>> { Seq::new(self.data.len() as nat, |i: int| self.data[i]@) }
}
impl<T: Copy, C: Unsigned> DenseMatrix<T, C> {
    pub open spec fn wf(&self) -> bool { forall|i:int| 0 <= i < self@.len() ==> (#[trigger] self@[i]).len() == C::USIZE }
    #[verifier::external_body]
    pub fn rows(&self) -> (r: usize) ensures r == self@.len() { self.data.len() }
    #[verifier::external_body]
    pub fn resize(&mut self, rows: usize)
        requires old(self).wf()
        ensures final(self).wf(), final(self)@.len() == rows,
            forall|i:int| 0 <= i < rows && i < old(self)@.len() ==> final(self)@[i] == old(self)@[i]
    { unimplemented!() }
}
impl<T: Copy, C: Unsigned> IndexSpecImpl<usize> for DenseMatrix<T, C> {
    open spec fn index_req(&self, i: &usize) -> bool { *i < self@.len() }
}
impl<T: Copy, C: Unsigned> Index<usize> for DenseMatrix<T, C> {
    type Output = [T];
    #[verifier::external_body]
    fn index(&self, index: usize) -> (r: &[T]) ensures r@ == self@[index as int]
    { self.data[index].as_slice() }
}
impl<T: Copy, C: Unsigned> IndexMut<usize> for DenseMatrix<T, C> {
    #[verifier::external_body]
    fn index_mut(&mut self, index: usize) -> (r: &mut [T])
        ensures r@ == old(self)@[index as int], final(self)@ == old(self)@.update(index as int, final(r)@),
    { self.data[index].as_mut_slice() }
}

pub struct StripedSequence<A: Alphabet, C: Unsigned> {
    pub length: usize, pub wrap: usize, pub data: DenseMatrix<A::Symbol, C>,
}

impl<A: Alphabet, C: Unsigned> StripedSequence<A, C> {
    pub open spec fn wf(&self) -> bool { self.data.wf() && self.wrap <= self.data@.len() && C::USIZE >= 1 }

    // ---------- verbatim body from seq.rs + injected contract/invariants ----------
    pub fn configure_wrap(&mut self, m: usize)
        requires old(self).wf(), old(self).data@.len() + m <= usize::MAX,
        ensures final(self).wf(), final(self).wrap >= m,
    {
        if m > self.wrap {
            let rows = self.data.rows() - self.wrap;
            self.data.resize(self.data.rows() + m - self.wrap);
            for i in 0..m
                invariant self.data.wf(), self.data@.len() == rows + m, C::USIZE >= 1,
            {
                for j in 0..C::USIZE - 1
                    invariant self.data.wf(), self.data@.len() == rows + m, C::USIZE >= 1, i < m,
                {
                    self.data[rows + i][j] = self.data[i][j + 1];
                }
                self.data[rows + i][C::USIZE - 1] = A::default_symbol();
            }
            self.wrap = m;
        }
    }
}

} // verus!
fn main() {}
