use vstd::prelude::*;
use std::ops::Range;
verus! {

pub struct MatrixCoordinates { pub row: usize, pub col: usize }
pub struct Hit { pub position: usize, pub score: f32 }
impl Hit {
    #[verifier::external_body]
    pub fn new(position: usize, score: f32) -> (r: Hit) ensures r.position == position, r.score == score { Hit { position, score } }
}
pub struct Dm { pub x: u8 }
impl Dm {
    #[verifier::external_body]
    pub fn scale(&self, t: f32) -> (r: u8) { 0 }
    #[verifier::external_body]
    pub fn as_ref(&self) -> (r: &Self) ensures r == self { self }
}
pub struct Mat { pub rows: usize }
impl Mat { pub fn rows(&self) -> (r: usize) ensures r == self.rows { self.rows } }
pub struct Seq_ { pub m: Mat, pub wrap: usize }
impl Seq_ {
    pub fn matrix(&self) -> (r: &Mat) ensures r == &self.m { &self.m }
    pub fn wrap(&self) -> (r: usize) ensures r == self.wrap { self.wrap }
    #[verifier::external_body]
    pub fn as_ref(&self) -> (r: &Self) ensures r == self { self }
}
pub struct Scores { pub rows: usize }
pub struct Pssm { pub x: u8 }
impl Pssm {
    #[verifier::external_body]
    pub fn as_ref(&self) -> (r: &Self) ensures r == self { self }
    #[verifier::external_body]
    pub fn score_position(&self, seq: &Seq_, pos: usize) -> (r: f32)
        requires pos < 1000
    { 0.0 }
}
pub struct Pipeline { pub x: u8 }
impl Pipeline {
    #[verifier::external_body]
    pub fn score_rows_into(&self, dm: &Dm, seq: &Seq_, rows: Range<usize>, scores: &mut Scores)
        ensures final(scores).rows == (if rows.start < rows.end { (rows.end - rows.start) as usize } else { 0usize })
    { }
    #[verifier::external_body]
    pub fn max(&self, scores: &Scores) -> (r: Option<u8>) ensures r.is_some() == (scores.rows > 0) { None }
    #[verifier::external_body]
    pub fn threshold(&self, scores: &Scores, t: u8) -> (r: Vec<MatrixCoordinates>)
        ensures forall|i: int| 0 <= i < r@.len() ==> r@[i].row < scores.rows && r@[i].col < 32
    { Vec::new() }
}

pub struct Scanner {
    pub pssm: Pssm, pub dm: Dm, pub seq: Seq_, pub dscores: Scores,
    pub threshold: f32, pub block_size: usize, pub row: usize, pub hits: Vec<Hit>, pub pipeline: Pipeline,
}

impl Scanner {
    fn next(&mut self) -> (r: Option<Hit>)
        requires old(self).block_size >= 1, old(self).seq.m.rows < 1000000, old(self).row < 1000000, old(self).block_size < 1000000,
    {
        let seq = self.seq.as_ref();
        let t = self.dm.scale(self.threshold);
        while self.hits.is_empty() && self.row < seq.matrix().rows()
            invariant self.block_size >= 1, self.block_size < 1000000, seq == &self.seq, self.seq.m.rows < 1000000, self.row < 2000000,
            decreases (if self.row < seq.m.rows { seq.m.rows - self.row } else { 0 }),
        {
            // compute the row slice to score in the striped sequence matrix
            let end =
                (self.row + self.block_size).min(seq.matrix().rows().saturating_sub(seq.wrap()));
            // score the row slice
            self.pipeline
                .score_rows_into(&self.dm, &self.seq, self.row..end, &mut self.dscores);
            // check if any position is higher than the discrete threshold.
            if self.pipeline.max(&self.dscores).unwrap() >= t {
                for c in self.pipeline.threshold(&self.dscores, t) {
                    let index = c.col * (seq.matrix().rows() - seq.wrap()) + self.row + c.row;
                    let score = self.pssm.as_ref().score_position(seq, index);
                    if score >= self.threshold {
                        self.hits.push(Hit::new(index, score));
                    }
                }
            }
            // Proceed to the next block.
            self.row += self.block_size;
        }
        self.hits.pop()
    }
}
} // verus!
fn main() {}
