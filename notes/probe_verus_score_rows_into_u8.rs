use vstd::prelude::*;
use vstd::std_specs::ops::*; use vstd::std_specs::core::IndexSpecImpl;
use std::ops::{Index, IndexMut, Range};
verus! {

// ---------- stand-in prelude ----------
pub trait Unsigned { const USIZE: usize; }
pub trait Symbol: Copy + Sized {
    spec fn idx(&self) -> usize;
    fn as_index(&self) -> (r: usize) ensures r == self.idx();
}
pub trait Alphabet: Sized {
    type Symbol: Symbol;
    type K: Unsigned;
    proof fn idx_bound(s: Self::Symbol) ensures s.idx() < Self::K::USIZE;
}

pub struct DenseMatrix<T, C> { pub data: Vec<Vec<T>>, pub c: core::marker::PhantomData<C> }
impl<T: Copy, C: Unsigned> View for DenseMatrix<T, C> {
    type V = Seq<Seq<T>>;
    closed spec fn view(&self) -> Seq<Seq<T>> { Seq::new(self.data.len() as nat, |i: int| self.data[i]@) }
}
impl<T: Copy, C: Unsigned> DenseMatrix<T, C> {
    pub open spec fn wf(&self) -> bool { forall|i:int| 0 <= i < self@.len() ==> (#[trigger] self@[i]).len() == C::USIZE }
    #[verifier::external_body]
    pub fn rows(&self) -> (r: usize) ensures r == self@.len() { self.data.len() }
    #[verifier::external_body]
    pub fn as_ref(&self) -> (r: &Self) ensures r == self { self }
    #[verifier::external_body]
    pub fn resize(&mut self, rows: usize)
        requires old(self).wf()
        ensures final(self).wf(), final(self)@.len() == rows,
            forall|i:int| 0 <= i < rows && i < old(self)@.len() ==> final(self)@[i] == old(self)@[i]
    { unimplemented!() }
}
impl<T: Copy, C: Unsigned> IndexSpecImpl<usize> for DenseMatrix<T, C> {
    open spec fn index_req(&self, i: &usize) -> bool { *i < self@.len() }
}
impl<T: Copy, C: Unsigned> Index<usize> for DenseMatrix<T, C> {
    type Output = [T];
    #[verifier::external_body]
    fn index(&self, index: usize) -> (r: &[T]) ensures r@ == self@[index as int]
    { self.data[index].as_slice() }
}
impl<T: Copy, C: Unsigned> IndexMut<usize> for DenseMatrix<T, C> {
    #[verifier::external_body]
    fn index_mut(&mut self, index: usize) -> (r: &mut [T])
        ensures r@ == old(self)@[index as int], final(self)@ == old(self)@.update(index as int, final(r)@),
    { self.data[index].as_mut_slice() }
}

pub struct StripedSequence<A: Alphabet, C: Unsigned> { pub length: usize, pub wrap: usize, pub data: DenseMatrix<A::Symbol, C> }
impl<A: Alphabet, C: Unsigned> StripedSequence<A, C> {
    pub open spec fn wf(&self) -> bool { self.data.wf() && self.wrap <= self.data@.len() && self.length < usize::MAX }
    pub fn len(&self) -> (r: usize) ensures r == self.length { self.length }
    pub fn matrix(&self) -> (r: &DenseMatrix<A::Symbol, C>) ensures r == &self.data { &self.data }
    #[verifier::external_body]
    pub fn as_ref(&self) -> (r: &Self) ensures r == self { self }
}

pub struct StripedScores<T, C> { pub data: DenseMatrix<T, C>, pub max_index: usize }
impl<T: Copy, C: Unsigned> StripedScores<T, C> {
    pub fn resize(&mut self, rows: usize, max_index: usize)
        requires old(self).data.wf()
        ensures final(self).data.wf(), final(self).data@.len() == rows, final(self).max_index == max_index
    { self.data.resize(rows); self.max_index = max_index; }
    pub fn matrix_mut(&mut self) -> (r: &mut DenseMatrix<T, C>)
        ensures *r == old(self).data, final(self).data == *final(r), final(self).max_index == old(self).max_index
    { &mut self.data }
}

pub uninterp spec fn range_is_empty_spec<Idx>(r: &Range<Idx>) -> bool;
pub assume_specification<Idx: core::cmp::PartialOrd<Idx> + core::cmp::PartialOrd<Idx>>[ Range::<Idx>::is_empty ](r: &Range<Idx>) -> (b: bool)
    ensures b == range_is_empty_spec(r);
pub broadcast proof fn axiom_range_is_empty_usize(r: &Range<usize>)
    ensures #[trigger] range_is_empty_spec(r) == !(r.start < r.end)
{ admit(); }

#[verifier::external_body]
pub fn range_len(r: &Range<usize>) -> (n: usize) ensures n == if r.start < r.end { r.end - r.start } else { 0 } { r.len() }

// ---------- spec ----------
pub open spec fn win_sum<S: Symbol>(pssm: Seq<Seq<u8>>, data: Seq<Seq<S>>, row: int, col: int, n: int) -> int
    decreases n
{ if n <= 0 { 0 } else { win_sum(pssm, data, row, col, n - 1) + pssm[n-1][data[row + n - 1][col].idx() as int] as int } }

// ---------- unit: Score::score_rows_into (default impl), T = u8, desugared loop headers only ----------
pub fn score_rows_into<A: Alphabet, C: Unsigned>(pssm: &DenseMatrix<u8, A::K>, seq: &StripedSequence<A, C>, rows: Range<usize>, scores: &mut StripedScores<u8, C>)
    requires
        seq.wf(), pssm.wf(), old(scores).data.wf(),
        rows.start < rows.end ==> rows.end + pssm@.len() <= seq.data@.len() + 1,
        // no-overflow side condition for the u8 instance
        forall|r: int, c: int| rows.start <= r < rows.end && 0 <= c < C::USIZE ==>
            win_sum(pssm@, seq.data@, (r) as int, c, pssm@.len() as int) <= 255,
    ensures
        final(scores).data.wf(),
        (seq.length < pssm@.len() || !(rows.start < rows.end)) ==> final(scores).data@.len() == 0 && final(scores).max_index == 0,
        !(seq.length < pssm@.len() || !(rows.start < rows.end)) ==> {
            &&& final(scores).data@.len() == rows.end - rows.start
            &&& final(scores).max_index == seq.length + 1 - pssm@.len()
            &&& forall|r: int, c: int| 0 <= r < rows.end - rows.start && 0 <= c < C::USIZE ==>
                  #[trigger] final(scores).data@[r][c] as int == win_sum(pssm@, seq.data@, (rows.start + r) as int, c, pssm@.len() as int)
        },
{
        broadcast use axiom_range_is_empty_usize;
        let seq = seq.as_ref();
        let pssm = pssm.as_ref();

        if seq.len() < pssm.rows() || rows.is_empty() {
            scores.resize(0, 0);
            return;
        }

        // FIXME?
        scores.resize(range_len(&rows), (seq.len() + 1).saturating_sub(pssm.rows()));

        let result = scores.matrix_mut();
        let matrix = pssm;

        for res_row in 0..range_len(&rows)
            invariant
                result.wf(), result@.len() == rows.end - rows.start, rows.start < rows.end,
                matrix == pssm, matrix.wf(), seq.wf(), rows.end + pssm@.len() <= seq.data@.len() + 1,
                forall|r: int, c: int| rows.start <= r < rows.end && 0 <= c < C::USIZE ==>
                    win_sum(pssm@, seq.data@, (r) as int, c, pssm@.len() as int) <= 255,
                forall|r: int, c: int| 0 <= r < res_row && 0 <= c < C::USIZE ==>
                    #[trigger] result@[r][c] as int == win_sum(pssm@, seq.data@, (rows.start + r) as int, c, pssm@.len() as int),
        {
            let seq_row = rows.start + res_row;
            for col in 0..C::USIZE
                invariant
                    result.wf(), result@.len() == rows.end - rows.start, rows.start < rows.end, res_row < rows.end - rows.start,
                    seq_row == rows.start + res_row,
                    matrix == pssm, matrix.wf(), seq.wf(), rows.end + pssm@.len() <= seq.data@.len() + 1,
                    forall|r: int, c: int| rows.start <= r < rows.end && 0 <= c < C::USIZE ==>
                        win_sum(pssm@, seq.data@, (r) as int, c, pssm@.len() as int) <= 255,
                    forall|r: int, c: int| 0 <= r < res_row && 0 <= c < C::USIZE ==>
                        #[trigger] result@[r][c] as int == win_sum(pssm@, seq.data@, (rows.start + r) as int, c, pssm@.len() as int),
                    forall|c: int| 0 <= c < col ==>
                        #[trigger] result@[res_row as int][c] as int == win_sum(pssm@, seq.data@, (seq_row) as int, c, pssm@.len() as int),
            {
                let mut score = u8::default();
                for j in 0..matrix.rows()
                    invariant
                        matrix == pssm, matrix.wf(), seq.wf(), col < C::USIZE, seq_row < rows.end,
                        rows.end + pssm@.len() <= seq.data@.len() + 1,
                        win_sum(pssm@, seq.data@, (seq_row) as int, col as int, pssm@.len() as int) <= 255,
                        score as int == win_sum(pssm@, seq.data@, (seq_row) as int, col as int, j as int),
                {
                    let pssm_row = &matrix[j];
                    let symbol = seq.matrix()[seq_row + j][col];
                    proof { A::idx_bound(symbol); lemma_fold_mono::<A, C>(pssm@, seq.data@, seq_row as int, col as int, j as int + 1, pssm@.len() as int); }
                    score += pssm_row[symbol.as_index()];
                }
                result[res_row][col] = score;
            }
        }
}

proof fn lemma_fold_mono<A: Alphabet, C: Unsigned>(pssm: Seq<Seq<u8>>, data: Seq<Seq<A::Symbol>>, row: int, col: int, a: int, b: int)
    requires 0 <= a <= b
    ensures win_sum(pssm, data, row, col, a) <= win_sum(pssm, data, row, col, b)
    decreases b - a
{
    if a < b { lemma_fold_mono::<A, C>(pssm, data, row, col, a, b - 1); }
}

} // verus!
fn main() {}
