#![allow(unused)]
#[cfg(kani)]
mod proofs {
    use lightmotif::abc::*;
    use lightmotif::dense::*;
    use lightmotif::num::*;
    use lightmotif::pli::*;
    use lightmotif::pli::platform::*;
    use lightmotif::seq::*;
    use lightmotif::scores::*;
    use std::arch::x86_64::*;

    unsafe fn b(x: __m256i) -> [u8; 32] { std::mem::transmute(x) }
    unsafe fn ib(x: [u8; 32]) -> __m256i { std::mem::transmute(x) }
    unsafe fn w(x: __m256i) -> [u32; 8] { std::mem::transmute(x) }
    unsafe fn f(x: __m256) -> [f32; 8] { std::mem::transmute(x) }
    unsafe fn iff(x: [f32; 8]) -> __m256 { std::mem::transmute(x) }

    // Intel SDM: VPSHUFB ymm: per 128-bit lane; if bit7 of index set -> 0 else src[lane*16 + (idx & 0xF)]
    unsafe fn m_shuffle_epi8(a: __m256i, idx: __m256i) -> __m256i {
        let (a, idx) = (b(a), b(idx));
        let mut r = [0u8; 32];
        let mut i = 0;
        while i < 32 { let l = (i / 16) * 16; r[i] = if idx[i] & 0x80 != 0 { 0 } else { a[l + (idx[i] & 0x0F) as usize] }; i += 1; }
        ib(r)
    }
    // VPERMPS: r[i] = a[idx[i] & 7]
    unsafe fn m_permutevar8x32_ps(a: __m256, idx: __m256i) -> __m256 {
        let (a, idx) = (f(a), w(idx));
        let mut r = [0f32; 8];
        let mut i = 0;
        while i < 8 { r[i] = a[(idx[i] & 7) as usize]; i += 1; }
        iff(r)
    }
    // VPERM2F128 imm8
    unsafe fn m_permute2f128_ps<const IMM8: i32>(a: __m256, b_: __m256) -> __m256 {
        let (a, b_) = (f(a), f(b_));
        let sel = |c: i32| -> [f32; 4] {
            if c & 8 != 0 { [0.0; 4] } else { match c & 3 { 0 => [a[0],a[1],a[2],a[3]], 1 => [a[4],a[5],a[6],a[7]], 2 => [b_[0],b_[1],b_[2],b_[3]], _ => [b_[4],b_[5],b_[6],b_[7]] } }
        };
        let lo = sel(IMM8 & 0xF); let hi = sel((IMM8 >> 4) & 0xF);
        iff([lo[0],lo[1],lo[2],lo[3],hi[0],hi[1],hi[2],hi[3]])
    }
    unsafe fn m_stream_ps(p: *mut f32, a: __m256) { assert!(p as usize % 32 == 0); *(p as *mut __m256) = a; }
    unsafe fn m_sfence() {}

    fn any_nuc() -> Nucleotide { let c: u8 = kani::any(); kani::assume(c < 5); Dna::symbols()[c as usize] }
    fn any_score() -> f32 { let x: f32 = kani::any(); kani::assume(!x.is_nan() && x != f32::INFINITY); x }

    #[kani::proof]
    #[kani::unwind(34)]
    #[kani::stub(std::arch::x86_64::_mm256_shuffle_epi8, m_shuffle_epi8)]
    #[kani::stub(std::arch::x86_64::_mm256_permutevar8x32_ps, m_permutevar8x32_ps)]
    #[kani::stub(std::arch::x86_64::_mm256_permute2f128_ps, m_permute2f128_ps)]
    #[kani::stub(std::arch::x86_64::_mm256_stream_ps, m_stream_ps)]
    #[kani::stub(std::arch::x86_64::_mm_sfence, m_sfence)]
    fn score_avx2_permute_dna() {
        const R: usize = 1; const M: usize = 2;
        let mut sm = unsafe { DenseMatrix::<Nucleotide, U32>::uninitialized(R + M - 1) };
        for r in 0..R + M - 1 { for c in 0..32 { sm[r][c] = any_nuc(); } }
        let seq = StripedSequence::<Dna, U32>::with_wrap_unchecked(sm, 32 * R, M - 1);
        // wrap must be >= M-1: configure_wrap would resize; emulate by constructing with wrap rows present
        let mut pm = unsafe { DenseMatrix::<f32, U5>::uninitialized(M) };
        for r in 0..M { for c in 0..5 { pm[r][c] = any_score(); } }
        let mut scores = StripedScores::<f32, U32>::empty();
        *scores.matrix_mut() = unsafe { DenseMatrix::<f32, U32>::uninitialized(R) };
        Avx2::score_f32_rows_into::<Dna, _, _>(&pm, &seq, 0..R, &mut scores);
        let c: usize = kani::any(); kani::assume(c < 32);
        let expect = (0.0f32 + pm[0][seq.matrix()[0][c].as_index()]) + pm[1][seq.matrix()[1][c].as_index()];
        let got = scores.matrix()[0][c];
        assert!(got.to_bits() == expect.to_bits() );
    }
    #[kani::proof]
    #[kani::unwind(34)]
    #[kani::stub(std::arch::x86_64::_mm256_shuffle_epi8, m_shuffle_epi8)]
    #[kani::stub(std::arch::x86_64::_mm256_permutevar8x32_ps, m_permutevar8x32_ps)]
    #[kani::stub(std::arch::x86_64::_mm256_permute2f128_ps, m_permute2f128_ps)]
    #[kani::stub(std::arch::x86_64::_mm256_stream_ps, m_stream_ps)]
    #[kani::stub(std::arch::x86_64::_mm_sfence, m_sfence)]
    fn score_avx2_permute_dna_v1() {
        const R: usize = 1; const M: usize = 2;
        let mut sm = unsafe { DenseMatrix::<Nucleotide, U32>::uninitialized(R + M - 1) };
        for r in 0..R + M - 1 { for c in 0..32 { sm[r][c] = any_nuc(); } }
        let seq = StripedSequence::<Dna, U32>::with_wrap_unchecked(sm, 32 * R, M - 1);
        // wrap must be >= M-1: configure_wrap would resize; emulate by constructing with wrap rows present
        let mut pm = unsafe { DenseMatrix::<f32, U5>::uninitialized(M) };
        for r in 0..M { for c in 0..5 { pm[r][c] = (1u32 << (5*r + c)) as f32; } }
        let mut scores = StripedScores::<f32, U32>::empty();
        *scores.matrix_mut() = unsafe { DenseMatrix::<f32, U32>::uninitialized(R) };
        Avx2::score_f32_rows_into::<Dna, _, _>(&pm, &seq, 0..R, &mut scores);
        let c: usize = kani::any(); kani::assume(c < 32);
        let expect = (0.0f32 + pm[0][seq.matrix()[0][c].as_index()]) + pm[1][seq.matrix()[1][c].as_index()];
        let got = scores.matrix()[0][c];
        assert!(got.to_bits() == expect.to_bits() );
    }
    #[kani::proof]
    #[kani::unwind(34)]
    #[kani::stub(std::arch::x86_64::_mm256_shuffle_epi8, m_shuffle_epi8)]
    #[kani::stub(std::arch::x86_64::_mm256_permutevar8x32_ps, m_permutevar8x32_ps)]
    #[kani::stub(std::arch::x86_64::_mm256_permute2f128_ps, m_permute2f128_ps)]
    #[kani::stub(std::arch::x86_64::_mm256_stream_ps, m_stream_ps)]
    #[kani::stub(std::arch::x86_64::_mm_sfence, m_sfence)]
    fn score_avx2_permute_dna_v2() {
        const R: usize = 1; const M: usize = 1;
        let mut sm = unsafe { DenseMatrix::<Nucleotide, U32>::uninitialized(R + M - 1) };
        for r in 0..R + M - 1 { for c in 0..32 { sm[r][c] = any_nuc(); } }
        let seq = StripedSequence::<Dna, U32>::with_wrap_unchecked(sm, 32 * R, M - 1);
        // wrap must be >= M-1: configure_wrap would resize; emulate by constructing with wrap rows present
        let mut pm = unsafe { DenseMatrix::<f32, U5>::uninitialized(M) };
        for r in 0..M { for c in 0..5 { pm[r][c] = any_score(); } }
        let mut scores = StripedScores::<f32, U32>::empty();
        *scores.matrix_mut() = unsafe { DenseMatrix::<f32, U32>::uninitialized(R) };
        Avx2::score_f32_rows_into::<Dna, _, _>(&pm, &seq, 0..R, &mut scores);
        let c: usize = kani::any(); kani::assume(c < 32);
        let expect = 0.0f32 + pm[0][seq.matrix()[0][c].as_index()];
        let got = scores.matrix()[0][c];
        assert!(got.to_bits() == expect.to_bits() );
    }
}
