"""Minimal Rust lexical helpers: comment/string/char/lifetime aware scanning.

Used by extract.py to locate items and match braces in /repo sources *without*
parsing Rust: everything the extractor copies is copied as text.
"""
import re

OPEN = {'{': '}', '(': ')', '[': ']'}
CLOSE = {'}': '{', ')': '(', ']': '['}


def mask(text):
    """Return a same-length string where comments, string/char literal contents are
    replaced by spaces (newlines kept), so that brace matching and keyword search can be
    done with plain string operations on the masked copy."""
    out = list(text)
    i, n = 0, len(text)
    while i < n:
        c = text[i]
        nxt = text[i + 1] if i + 1 < n else ''
        if c == '/' and nxt == '/':
            j = text.find('\n', i)
            if j < 0:
                j = n
            for k in range(i, j):
                out[k] = ' '
            i = j
        elif c == '/' and nxt == '*':
            depth, j = 1, i + 2
            while j < n and depth:
                if text.startswith('/*', j):
                    depth += 1
                    j += 2
                elif text.startswith('*/', j):
                    depth -= 1
                    j += 2
                else:
                    j += 1
            for k in range(i, j):
                if out[k] != '\n':
                    out[k] = ' '
            i = j
        elif c == '"' or (c in 'br' and re.match(r'b?r?#*"', text[i:i + 6]) and (i == 0 or not (text[i - 1].isalnum() or text[i - 1] == '_'))):
            m = re.match(r'(b?)(r?)(#*)"', text[i:])
            raw, hashes = m.group(2) == 'r', m.group(3)
            j = i + m.end()
            if raw:
                endtok = '"' + hashes
                e = text.find(endtok, j)
                e = n if e < 0 else e + len(endtok)
            else:
                e = j
                while e < n and text[e] != '"':
                    e += 2 if text[e] == '\\' else 1
                e += 1
            for k in range(i + m.end(), max(i + m.end(), e - 1 - (len(hashes) if raw else 0))):
                if out[k] != '\n':
                    out[k] = ' '
            i = e
        elif c == "'":
            # char literal or lifetime
            m = re.match(r"'(\\.[^']*|[^'\\])'", text[i:])
            if m:
                for k in range(i + 1, i + m.end() - 1):
                    out[k] = ' '
                i += m.end()
            else:
                i += 1
        else:
            i += 1
    return ''.join(out)


def match_close(masked, i):
    """masked[i] is an opening bracket; return index of its matching close."""
    assert masked[i] in OPEN, (i, masked[i])
    stack = [masked[i]]
    j = i + 1
    n = len(masked)
    while j < n:
        ch = masked[j]
        if ch in OPEN:
            stack.append(ch)
        elif ch in CLOSE:
            if not stack or stack[-1] != CLOSE[ch]:
                raise ValueError('unbalanced at %d' % j)
            stack.pop()
            if not stack:
                return j
        j += 1
    raise ValueError('no close for %d' % i)


def norm_ws(s):
    """Whitespace-insensitive normal form of a code fragment."""
    s = re.sub(r'\s+', ' ', s.strip())
    s = re.sub(r'\s*([(){}\[\]<>,;:&*=+\-|!?.])\s*', r'\1', s)
    return s


def find_blocks(text, masked, start, end, kinds=('impl', 'trait')):
    """Yield (header_text, open_brace_idx, close_brace_idx) for every impl/trait item between start and
    end, at any nesting depth (so items inside `mod` blocks and `macro_rules!` bodies are found too)."""
    pat = re.compile(r'\b(%s)\b' % '|'.join(kinds))
    i = start
    while True:
        m = pat.search(masked, i, end)
        if not m:
            return
        k = m.start()
        # `impl Trait` in argument/return position is preceded by ':' '->' '(' ',' '<' '&' or '='
        p = k - 1
        while p >= 0 and masked[p] in ' \t\n':
            p -= 1
        if p >= 0 and masked[p] in ':>(,<&=':
            i = m.end()
            continue
        j = m.end()
        hdr_end = None
        while j < end:
            ch = masked[j]
            if ch in '([':
                j = match_close(masked, j)
            elif ch == '{':
                hdr_end = j
                break
            elif ch == ';' or ch == '}':
                break
            j += 1
        if hdr_end is None:
            i = m.end()
            continue
        close = match_close(masked, hdr_end)
        yield text[k:hdr_end], hdr_end, close
        i = hdr_end + 1


def find_fn_in(text, masked, start, end, name, nth=0):
    """Find `fn name` at brace depth 0 relative to region (start,end). Return
    (sig_start, body_open, body_close). sig_start is the index of `fn`."""
    pat = re.compile(r'\bfn\s+%s\b' % re.escape(name))
    i = start
    count = 0
    while True:
        m = pat.search(masked, i, end)
        if not m:
            return None
        # depth check
        depth = 0
        for ch in masked[start:m.start()]:
            if ch == '{':
                depth += 1
            elif ch == '}':
                depth -= 1
        if depth == 0:
            j = m.end()
            body_open = None
            while j < end:
                ch = masked[j]
                if ch in '([':
                    j = match_close(masked, j)
                elif ch == '{':
                    body_open = j
                    break
                elif ch == ';':
                    break
                j += 1
            if body_open is not None:
                if count == nth:
                    return m.start(), body_open, match_close(masked, body_open)
                count += 1
        i = m.end()
