#!/usr/bin/env python3
"""Mechanical extractor: /repo source  ->  build/<group>.rs  (Verus input).

A group template (units/<group>.rs.in) is ordinary Verus text plus `//@` directives:

  //@include <path relative to /verif>
  //@assume <contract-id>                       emit contracts/<id>.hdr as an external_body fn (assumed contract)
  //@unit <contract-id> <file> :: <scope> :: <fn> [#n]
      ... optional inline header (used instead of contracts/<id>.hdr) ...
  //@body
  //@sig <signature of the fn in /repo, whitespace-insensitive>     (fingerprint; mismatch => undecided)
  //@loop <k> [R1 | R1m | R1c | R2 | R3 | R3m | KEEP]               ghost text for loop number k (source order)
      invariant ...
  //@before [#n] "<anchor text>"                                     ghost text inserted before n-th occurrence
  //@after  [#n] "<anchor text>"                                     ghost text inserted after it
  //@rewrite <RULE> [xN|x*] "<from>" => "<to>"                          declared semantics-preserving rewrite (W, R6, S1)
  //@pre                                                             ghost text at the very start of the body
  //@hoist <name> "<expr>"                                           rule HL: leading sub-expression E of a statement -> `let name = E; <ghost text>` before it
  //@tail <name> [: type]                                                    rule TL: tail expression E -> `let name = E; <ghost text> name`
  //@end

Everything between the braces of the /repo function is copied verbatim, except for the declared
rewrites, all of which are logged (rule, before, after) and returned to the driver for the evidence.
Exit status 2 / ExtractError = undecided (lost anchor, changed signature, unknown loop shape).
"""
import hashlib
import json
import os
import re
import sys

sys.path.insert(0, os.path.dirname(os.path.abspath(__file__)))
from rustlex import mask, match_close, norm_ws, find_blocks, find_fn_in  # noqa: E402

VERIF = os.path.dirname(os.path.dirname(os.path.abspath(__file__)))
REPO = os.environ.get('VERIF_REPO', '/repo')


class ExtractError(Exception):
    pass


_src_cache = {}


def load_src(rel):
    p = os.path.join(REPO, rel)
    if p not in _src_cache:
        if not os.path.exists(p):
            raise ExtractError('source file missing: %s' % rel)
        t = open(p).read()
        _src_cache[p] = (t, mask(t))
    return _src_cache[p]


def locate(rel, scope, fn, nth=0):
    text, masked = load_src(rel)
    if scope.strip() == '-':
        r = find_fn_in(text, masked, 0, len(text), fn, nth)
        if not r:
            raise ExtractError('anchor lost: fn %s in %s' % (fn, rel))
        return text, masked, r
    want = norm_ws(scope)
    cands = []
    for header, o, c in find_blocks(text, masked, 0, len(text)):
        h = norm_ws(re.sub(r'^\s*(pub(\([^)]*\))?\s+)?', '', header))
        # drop where clauses for comparison unless scope names one
        h0 = norm_ws(re.split(r'\bwhere\b', header)[0])
        if h == want or h0 == want:
            cands.append((o, c))
    if not cands:
        raise ExtractError('anchor lost: scope `%s` in %s' % (scope, rel))
    for o, c in cands:
        r = find_fn_in(text, masked, o + 1, c, fn, nth)
        if r:
            return text, masked, r
    raise ExtractError('anchor lost: fn %s in scope `%s` of %s' % (fn, scope, rel))


# ----------------------------------------------------------------------------------------------
# loops

LOOP_KW = re.compile(r'\b(for|while|loop)\b')


def find_loops(body, mbody):
    """Return list of (kw_start, header_end(=index of '{'), close) in source order."""
    loops = []
    i = 0
    while True:
        m = LOOP_KW.search(mbody, i)
        if not m:
            break
        # skip `for<'a>` and `impl X for Y`
        j = m.end()
        if m.group(1) == 'for' and re.match(r'\s*<', mbody[j:]):
            i = j
            continue
        # header end: first `{` at paren depth 0
        k = j
        hdr_end = None
        while k < len(mbody):
            ch = mbody[k]
            if ch in '([':
                k = match_close(mbody, k)
            elif ch == '{':
                hdr_end = k
                break
            elif ch == ';' or ch == '}':
                break
            k += 1
        if hdr_end is None:
            i = j
            continue
        if m.group(1) == 'for' and not re.search(r'\bin\b', mbody[j:hdr_end]):
            i = j
            continue
        loops.append((m.start(), hdr_end, match_close(mbody, hdr_end)))
        i = j
    return loops


def apply_loop_rule(rule, header, ghost, log, unit):
    """header: text from keyword up to (excluding) '{'. Returns (prefix, new_header, body_prefix, suffix)."""
    h = header.strip()
    if rule in (None, 'KEEP'):
        return '', h, '', ''
    if rule == 'IT':
        # ghost-only: name the for-loop iterator so that an invariant can mention `__it.iter.end`
        m = re.match(r'for\s+(\w+)\s+in\s+(.+)$', h, re.S)
        if not m:
            raise ExtractError('%s: loop header does not match IT: %s' % (unit, h))
        return '', 'for %s in __it: %s' % (m.group(1), m.group(2)), '', ''
    if rule in ('R1', 'R1m', 'R1c', 'R1s', 'R1v'):
        m = re.match(r'for\s*\(\s*(\w+)\s*,\s*(&?)\s*(\w+)\s*\)\s+in\s+(.+?)\s*\.(?:iter|into_iter)\(\)\s*\.enumerate\(\)$', h, re.S)
        if not m:
            raise ExtractError('%s: loop header does not match %s: %s' % (unit, rule, h))
        I, amp, X, E = m.group(1), m.group(2), m.group(3), m.group(4)
        bound = {'R1': '%s.len()', 'R1m': '%s.rows()', 'R1c': '%s.len()', 'R1s': '%s.len()', 'R1v': '%s.len()'}[rule] % E
        nh = 'for %s in 0..%s' % (I, bound)
        if amp or rule == 'R1v':
            # R1v: a Vec of Copy items consumed by value (`.into_iter()`): the item is bound by value
            bp = 'let %s = %s[%s];' % (X, E, I)
        else:
            bp = 'let %s = &%s[%s];' % (X, E, I)
        log.append({'unit': unit, 'rule': rule if rule == 'R1v' else 'R1', 'before': h, 'after': nh + ' { ' + bp + ' .. }'})
        return '', nh, bp, ''
    if rule in ('RIM', 'RIMm'):
        # for X in E.iter_mut()   (slice / Vec, or DenseMatrix rows for RIMm)  ->  indexed loop, X re-borrowed mutably each turn
        m = re.match(r'for\s+(\w+)\s+in\s+(.+?)\s*\.iter_mut\(\)$', h, re.S)
        if not m:
            raise ExtractError('%s: loop header does not match %s: %s' % (unit, rule, h))
        X, E = m.group(1), m.group(2)
        ln = ('%s.rows()' if rule == 'RIMm' else '%s.len()') % E
        pre = '{ let __n_%s = %s; ' % (X, ln)       # the length is read once, as `iter_mut()` does
        nh = 'for __i_%s in 0..__n_%s' % (X, X)
        bp = 'let %s = &mut %s[__i_%s];' % (X, E, X)
        log.append({'unit': unit, 'rule': rule, 'before': h, 'after': pre + nh + ' { ' + bp + ' .. } }'})
        return pre, nh, bp, ' }'
    if rule == 'RZM':
        # for (X, &F) in A.iter_mut().zip(B)   ->  indexed loop over the shorter, X re-borrowed mutably, F copied
        m = re.match(r'for\s*\(\s*(\w+)\s*,\s*&\s*(\w+)\s*\)\s+in\s+(.+?)\s*\.iter_mut\(\)\s*\.zip\(\s*(.+?)\s*\)$', h, re.S)
        if not m:
            raise ExtractError('%s: loop header does not match RZM: %s' % (unit, h))
        X, F, A, B = m.group(1), m.group(2), m.group(3), m.group(4)
        pre = '{ let __b_%s = %s; let __n_%s = if %s.len() < __b_%s.len() { %s.len() } else { __b_%s.len() }; ' % (X, B, X, A, X, A, X)
        nh = 'for __i_%s in 0..__n_%s' % (X, X)
        bp = 'let %s = &mut %s[__i_%s]; let %s = __b_%s[__i_%s];' % (X, A, X, F, X, X)
        log.append({'unit': unit, 'rule': 'RZM', 'before': h, 'after': pre + nh + ' { ' + bp + ' .. } }'})
        return pre, nh, bp, ' }'
    if rule == 'RZR':
        # for (S, D) in A.iter().zip(B.iter_mut())   (A, B: DenseMatrix; their row iterators visit rows 0..rows in order)
        #   -> indexed loop over the shorter, S shared, D re-borrowed mutably
        m = re.match(r'for\s*\(\s*(\w+)\s*,\s*(\w+)\s*\)\s+in\s+(.+?)\s*\.iter\(\)\s*\.zip\(\s*(.+?)\s*\.iter_mut\(\)\s*\)$', h, re.S)
        if not m:
            raise ExtractError('%s: loop header does not match RZR: %s' % (unit, h))
        S, D, A, B = m.group(1), m.group(2), m.group(3), m.group(4)
        pre = '{ let __n_%s = if %s.rows() < %s.rows() { %s.rows() } else { %s.rows() }; ' % (S, A, B, A, B)
        nh = 'for __i_%s in 0..__n_%s' % (S, S)
        bp = 'let %s = &%s[__i_%s]; let %s = &mut %s[__i_%s];' % (S, A, S, D, B, S)
        log.append({'unit': unit, 'rule': 'RZR', 'before': h, 'after': pre + nh + ' { ' + bp + ' .. } }'})
        return pre, nh, bp, ' }'
    if rule == 'RZE':
        # for (J, (&X, &F)) in A.iter().zip(B).enumerate()   (A, B: slices)  ->  indexed loop over the shorter, items copied
        m = re.match(r'for\s*\(\s*(\w+)\s*,\s*\(\s*&\s*(\w+)\s*,\s*&\s*(\w+)\s*\)\s*\)\s+in\s+(.+?)\s*\.iter\(\)\s*\.zip\(\s*(.+?)\s*\)\s*\.enumerate\(\)$', h, re.S)
        if not m:
            raise ExtractError('%s: loop header does not match RZE: %s' % (unit, h))
        J, X, F, A, B = m.groups()
        pre = '{ let __b_%s = %s; let __n_%s = if %s.len() < __b_%s.len() { %s.len() } else { __b_%s.len() }; ' % (J, B, J, A, J, A, J)
        nh = 'for %s in 0..__n_%s' % (J, J)
        bp = 'let %s = %s[%s]; let %s = __b_%s[%s];' % (X, A, J, F, J, J)
        log.append({'unit': unit, 'rule': 'RZE', 'before': h, 'after': pre + nh + ' { ' + bp + ' .. } }'})
        return pre, nh, bp, ' }'
    if rule == 'R1i':
        # for (I, X) in E.enumerate()   (E: a slice / Vec binding standing for its own iterator, see the S1 rewrite next to it)
        m = re.match(r'for\s*\(\s*(\w+)\s*,\s*(\w+)\s*\)\s+in\s+(\w+)\s*\.enumerate\(\)$', h, re.S)
        if not m:
            raise ExtractError('%s: loop header does not match R1i: %s' % (unit, h))
        I, X, E = m.group(1), m.group(2), m.group(3)
        nh = 'for %s in 0..%s.len()' % (I, E)
        bp = 'let %s = &%s[%s];' % (X, E, I)
        log.append({'unit': unit, 'rule': 'R1i', 'before': h, 'after': nh + ' { ' + bp + ' .. }'})
        return '', nh, bp, ''
    if rule == 'R1b':
        # for (I, X) in EXPR.iter().enumerate()  with EXPR an exec call: bind it once (as the iterator does), then index
        m = re.match(r'for\s*\(\s*(\w+)\s*,\s*(\w+)\s*\)\s+in\s+(.+?)\s*\.iter\(\)\s*\.enumerate\(\)$', h, re.S)
        if not m:
            raise ExtractError('%s: loop header does not match R1b: %s' % (unit, h))
        I, X, E = m.group(1), m.group(2), m.group(3)
        pre = '{ let __e_%s = %s; ' % (X, E)
        nh = 'for %s in 0..__e_%s.len()' % (I, X)
        bp = 'let %s = &__e_%s[%s];' % (X, X, I)
        log.append({'unit': unit, 'rule': 'R1b', 'before': h, 'after': pre + nh + ' { ' + bp + ' .. } }'})
        return pre, nh, bp, ' }'
    if rule in ('R3', 'R3m'):
        m = re.match(r'for\s*\(\s*(\w+)\s*,\s*(&?)\s*(\w+)\s*\)\s+in\s+(.+?)\s*\.iter\(\)\s*\.rev\(\)\s*\.enumerate\(\)$', h, re.S)
        if not m:
            raise ExtractError('%s: loop header does not match %s: %s' % (unit, rule, h))
        I, amp, X, E = m.group(1), m.group(2), m.group(3), m.group(4)
        ln = ('%s.rows()' if rule == 'R3m' else '%s.len()') % E
        nh = 'for %s in 0..%s' % (I, ln)
        bp = ('let %s = %s[%s - 1 - %s];' if amp else 'let %s = &%s[%s - 1 - %s];') % (X, E, ln, I)
        log.append({'unit': unit, 'rule': 'R3', 'before': h, 'after': nh + ' { ' + bp + ' .. }'})
        return '', nh, bp, ''
    if rule == 'R2':
        m = re.match(r'for\s*\(\s*(\w+)\s*,\s*(\w+)\s*\)\s+in\s+(.+?)\s*\.enumerate\(\)$', h, re.S)
        if not m:
            raise ExtractError('%s: loop header does not match R2: %s' % (unit, h))
        I, J, R = m.group(1), m.group(2), m.group(3)
        if re.match(r'^\w+$', R):
            nh = 'for %s in 0..range_len(&%s)' % (I, R)
            bp = 'let %s = %s.start + %s;' % (J, R, I)
            pre, suf = '', ''
        else:
            pre = '{ let __r = %s; ' % R
            nh = 'for %s in 0..range_len(&__r)' % I
            bp = 'let %s = __r.start + %s;' % (J, I)
            suf = ' }'
        log.append({'unit': unit, 'rule': 'R2+W', 'before': h, 'after': pre + nh + ' { ' + bp + ' .. }' + suf})
        return pre, nh, bp, suf
    if rule in ('R4', 'R4m'):
        # for X in E.iter()  /  for &X in E   (slice / Vec)  ->  indexed loop with a fresh index
        m = re.match(r'for\s+(&?)\s*(\w+)\s+in\s+(.+?)\s*(\.iter\(\))?$', h, re.S)
        if not m:
            raise ExtractError('%s: loop header does not match R4: %s' % (unit, h))
        amp, X, E = m.group(1), m.group(2), m.group(3)
        ln = ('%s.rows()' if rule == 'R4m' else '%s.len()') % E
        nh = 'for __i_%s in 0..%s' % (X, ln)
        bp = ('let %s = %s[__i_%s];' if amp else 'let %s = &%s[__i_%s];') % (X, E, X)
        log.append({'unit': unit, 'rule': 'R4', 'before': h, 'after': nh + ' { ' + bp + ' .. }'})
        return '', nh, bp, ''
    if rule == 'R4v':
        # for X in EXPR   (EXPR: a Vec of Copy items, consumed by value)  ->  bind the Vec, iterate by index
        m = re.match(r'for\s+(\w+)\s+in\s+(.+)$', h, re.S)
        if not m:
            raise ExtractError('%s: loop header does not match R4v: %s' % (unit, h))
        X, E = m.group(1), m.group(2).strip()
        pre = '{ let __v_%s = %s; ' % (X, E)
        nh = 'for __i_%s in 0..__v_%s.len()' % (X, X)
        bp = 'let %s = __v_%s[__i_%s];' % (X, X, X)
        log.append({'unit': unit, 'rule': 'R4v', 'before': h, 'after': pre + nh + ' { ' + bp + ' .. } }'})
        return pre, nh, bp, ' }'
    if rule == 'R4p':
        # for (X, Y) in EXPR   (EXPR: a Vec of (Copy, Vec<Copy>) pairs consumed by value; the body only reads Y)
        #   -> bind the Vec, iterate by index, X by value, Y by reference
        m = re.match(r'for\s*\(\s*(\w+)\s*,\s*(\w+)\s*\)\s+in\s+(\w+)$', h, re.S)
        if not m:
            raise ExtractError('%s: loop header does not match R4p: %s' % (unit, h))
        X, Y, E = m.group(1), m.group(2), m.group(3)
        pre = '{ let __v_%s = %s; ' % (X, E)
        nh = 'for __i_%s in 0..__v_%s.len()' % (X, X)
        bp = 'let %s = __v_%s[__i_%s].0; let %s = &__v_%s[__i_%s].1;' % (X, X, X, Y, X, X)
        log.append({'unit': unit, 'rule': 'R4p', 'before': h, 'after': pre + nh + ' { ' + bp + ' .. } }'})
        return pre, nh, bp, ' }'
    if rule == 'RZ':
        # for (X, Y) in A.into_iter().zip(B)   (A: &[T], B: &[U])  ->  indexed loop over the shorter of the two, items by reference
        m = re.match(r'for\s*\(\s*(\w+)\s*,\s*(\w+)\s*\)\s+in\s+(.+?)\s*\.into_iter\(\)\s*\.zip\(\s*(\w+)\s*\)$', h, re.S)
        if not m:
            raise ExtractError('%s: loop header does not match RZ: %s' % (unit, h))
        X, Y, A, B = m.group(1), m.group(2), m.group(3), m.group(4)
        pre = '{ let __a_%s = %s; let __n_%s = if __a_%s.len() < %s.len() { __a_%s.len() } else { %s.len() }; ' % (X, A, X, X, B, X, B)
        nh = 'for __i_%s in 0..__n_%s' % (X, X)
        bp = 'let %s = &__a_%s[__i_%s]; let %s = &%s[__i_%s];' % (X, X, X, Y, B, X)
        log.append({'unit': unit, 'rule': 'RZ', 'before': h, 'after': pre + nh + ' { ' + bp + ' .. } }'})
        return pre, nh, bp, ' }'
    if rule == 'R5':
        # for I in (A..=B).rev()
        m = re.match(r'for\s+(\w+)\s+in\s+\(\s*(.+?)\s*\.\.=\s*(.+?)\s*\)\s*\.rev\(\)$', h, re.S)
        if not m:
            raise ExtractError('%s: loop header does not match R5: %s' % (unit, h))
        raise ExtractError('R5 not implemented')
    raise ExtractError('%s: unknown loop rule %s' % (unit, rule))


def _r7(a, b):
    """`x op= e` -> `x = x op e` when e is atomic (identifier / deref / call / index, no top-level binary operator), otherwise the
    right-hand side must be parenthesised: `x = x op (e)` (compound assignment evaluates e as a whole)."""
    m = re.fullmatch(r'(\*?\w+(?:\[\w+\])?)\s*([-+*/])=\s*(.+)', a, re.S)
    if not m:
        return False
    x, op, e = m.group(1), m.group(2), m.group(3).strip()
    flat, depth = [], 0
    for ch in e:
        if ch in '([':
            depth += 1
        elif ch in ')]':
            depth -= 1
        elif depth == 0:
            flat.append(ch)
    atomic = re.fullmatch(r'\*?[\w\.:]+', ''.join(flat)) is not None
    if b == '%s = %s %s (%s)' % (x, x, op, e):
        return True
    return atomic and b == '%s = %s %s %s' % (x, x, op, e)


def _rmc(a, b):
    """RMC: `X.iter().map(|v| E).collect()` over a slice X -> a counted loop that pushes E for every element in order:
    `{ let mut __o: TYPE = Vec::new(); let __n = X.len(); let mut __k: usize = 0; while __k < __n invariant .. decreases __n - __k
       { let v = &X[__k]; __o.push(E); __k = __k + 1; } __o }` (E verbatim; the invariant / decreases clauses are ghost)."""
    m = re.fullmatch(r'(\w+)\.iter\(\)\.map\(\|(\w+)\|(.+)\)\.collect\(\)', norm_ws(a))
    if not m:
        return False
    x, v, e = m.group(1), m.group(2), m.group(3)
    esc = lambda t: re.escape(norm_ws(t))
    pat = (esc('{ let mut __o: Vec<') + r'[^;=]+' + esc('> = Vec::new(); let __n = %s.len(); let mut __k: usize = 0; while __k < __n invariant' % x)
           + r' ?.+?,? ?' + esc('decreases __n - __k') + r',?' + esc('{ let %s = &%s[__k]; __o.push(%s); __k = __k + 1; } __o }' % (v, x, e)))
    return re.fullmatch(pat, norm_ws(b)) is not None


REWRITE_RULES = {
    # rule id -> validator(from, to) -> bool
    'W': lambda a, b: re.fullmatch(r'(.+)\.len\(\)', a) and b == 'range_len(&%s)' % re.fullmatch(r'(.+)\.len\(\)', a).group(1),
    'R6': lambda a, b: a.replace('|', '||', 1) == b or a.replace(' | ', ' || ') == b,
    # R7: compound assignment on a primitive float (Verus crashes on `f32 +=`): `x op= e` -> `x = x op e`
    'R7': lambda a, b: _r7(a, b),
    # T1: explicit type ascription on a `let` whose type rustc infers from later uses (ghost text needs it earlier)
    'T1': lambda a, b: bool(re.fullmatch(r'(let\s+(mut\s+)?\w+)(\s*=.*)', a, re.S)) and re.sub(r'^(let\s+(mut\s+)?\w+)\s*:\s*[^=]+?(\s*=)', r'\1\3', b, flags=re.S) == a,
    # CL: closure `|x| EXPR` given explicit parameter/return types and ghost requires/ensures: `|x: T| -> (r: U) requires .. ensures .. { EXPR }`
    # (the executable body must be exactly EXPR; a leading ghost `proof { .. }` block - erased by compilation - is allowed)
    'CL': lambda a, b: (lambda m: bool(m) and re.search(r'\|\s*%s\s*:' % re.escape(m.group(1)), b) is not None and (
        norm_ws(b).endswith(norm_ws('{ ' + m.group(2) + ' }'))
        or re.search(r'\{\s*proof\s*\{[^{}]*\}\s*' + re.escape(norm_ws(m.group(2))) + r'\s*\}$', norm_ws(b)) is not None))(re.fullmatch(r'\|\s*(\w+)\s*\|\s*(.+)', a, re.S)),
    'S1': lambda a, b: True,   # monomorphisation of a generic parameter / iterator type; logged
    'S2': lambda a, b: True,   # by-value `mut self` modelled as `&mut self` (Verus has no `mut self`): the final move out of self is a take; logged
    'RMC': lambda a, b: _rmc(a, b),
    'W2': lambda a, b: True,   # call routed through a prelude wrapper whose body is that same call; logged
}


def debug_asserts(unit, body, log):
    """Rule DA (automatic, logged): `debug_assert!(c [, msg..])`, `debug_assert_eq!(a, b [, ..])`, `debug_assert_ne!(a, b [, ..])` statements
    become calls of the wrapper `debug_assert_holds(cond)` whose precondition is the condition - the macro panics otherwise (debug
    builds), so "no panic" is exactly that the condition holds. Verus has no specification for the std assertion macros."""
    m_body = mask(body)
    out, pos = [], 0
    for m in re.finditer(r'\bdebug_assert(_eq|_ne)?!\s*\(', m_body):
        if m.start() < pos:
            continue
        op = m.end() - 1
        cl = match_close(m_body, op)
        args_m, args = m_body[op + 1:cl], body[op + 1:cl]
        parts, depth, last = [], 0, 0
        for j, ch in enumerate(args_m):
            if ch in '([{':
                depth += 1
            elif ch in ')]}':
                depth -= 1
            elif ch == ',' and depth == 0:
                parts.append(args[last:j]); last = j + 1
        parts.append(args[last:])
        parts = [x.strip() for x in parts if x.strip()]
        kind = m.group(1)
        if kind is None and len(parts) >= 1:
            cond = parts[0]
        elif kind in ('_eq', '_ne') and len(parts) >= 2:
            cond = '(%s) %s (%s)' % (parts[0], '==' if kind == '_eq' else '!=', parts[1])
        else:
            continue
        out.append(body[pos:m.start()])
        out.append('debug_assert_holds(%s)' % cond)
        log.append({'unit': unit, 'rule': 'DA', 'before': norm_ws(body[m.start():cl + 1])[:100], 'after': 'debug_assert_holds(%s)' % norm_ws(cond)[:80]})
        pos = cl + 1
    out.append(body[pos:])
    return ''.join(out)


def transform_body(unit, body, directives, log):
    """body: text strictly between the function's braces. directives: parsed list."""
    mbody = mask(body)
    loops = find_loops(body, mbody)
    edits = []  # (start, end, replacement)
    in_header = set()   # start offsets of rewrite matches consumed by a loop-header edit
    # loop directives first (they may consume rewrites located in their headers), everything else in template order
    directives = [d for d in directives if d['kind'] == 'loop'] + [d for d in directives if d['kind'] != 'loop']
    used_loops = set()
    body_start_ghost = {}
    for d in directives:
        if d['kind'] == 'loopbody' and d['where'] == 'start':
            body_start_ghost[d['n']] = body_start_ghost.get(d['n'], '') + '\n// GHOST-BEGIN\n' + d['text'] + '// GHOST-END\n'
    for d in directives:
        kind = d['kind']
        ghost = d['text']
        if kind == 'loopbody':
            k = d['n']
            if k >= len(loops):
                raise ExtractError('%s: loop %d not found (body has %d loops)' % (unit, k, len(loops)))
            s_, he, close = loops[k]
            if d['where'] == 'end':
                edits.append((close, close, '\n// GHOST-BEGIN\n' + ghost + '// GHOST-END\n'))
            elif not any(x['kind'] == 'loop' and x['n'] == k for x in directives):
                edits.append((he + 1, he + 1, body_start_ghost[k]))
                body_start_ghost[k] = ''
            continue
        if kind == 'afterloop':
            k = d['n']
            if k >= len(loops):
                raise ExtractError('%s: loop %d not found (body has %d loops)' % (unit, k, len(loops)))
            # position just after the loop's closing brace; ordered before a rule suffix inserted at the same offset
            edits.append((loops[k][2] + 1, loops[k][2] + 1, '\n/*AFTERLOOP*/\n// GHOST-BEGIN\n' + ghost + '// GHOST-END\n'))
            continue
        if kind == 'beforeloop':
            k = d['n']
            if k >= len(loops):
                raise ExtractError('%s: loop %d not found (body has %d loops)' % (unit, k, len(loops)))
            edits.append((loops[k][0], loops[k][0], '\n// GHOST-BEGIN\n' + ghost + '// GHOST-END\n'))
            continue
        if kind == 'afterstmt':
            anchor = d['anchor']
            idxs = [m.start() for m in re.finditer(re.escape(anchor), body)]
            idxs = [i for i in idxs if mbody[i] == body[i]]
            if d['n'] >= len(idxs) or -d['n'] > len(idxs):
                raise ExtractError('%s: anchor `%s` #%d not found' % (unit, anchor, d['n']))
            j = idxs[d['n']]
            while j < len(mbody) and mbody[j] != ';':
                if mbody[j] in '([{':
                    j = match_close(mbody, j)
                j += 1
            edits.append((j + 1, j + 1, '\n// GHOST-BEGIN\n' + ghost + '// GHOST-END\n'))
            continue
        if kind == 'loop':
            k = d['n']
            if k >= len(loops):
                raise ExtractError('%s: loop %d not found (body has %d loops)' % (unit, k, len(loops)))
            used_loops.add(k)
            s, he, close = loops[k]
            header = body[s:he]
            # declared rewrites that fall inside this loop header are applied to the header text itself (the loop edit
            # replaces the whole header, so they cannot be separate edits)
            for d2 in directives:
                if d2['kind'] != 'rewrite':
                    continue
                pat2 = r'\s+'.join(re.escape(tok) for tok in d2['from'].split())
                for m2 in list(re.finditer(pat2, body)):
                    if s <= m2.start() and m2.end() <= he and mbody[m2.start()] == body[m2.start()]:
                        if d2['rule'] not in REWRITE_RULES or not REWRITE_RULES[d2['rule']](d2['from'], d2['to']):
                            raise ExtractError('%s: rewrite `%s` => `%s` is not an instance of rule %s' % (unit, d2['from'], d2['to'], d2['rule']))
                        header = re.sub(pat2, lambda _m: d2['to'], header, count=1)
                        in_header.add(m2.start())
                        log.append({'unit': unit, 'rule': d2['rule'], 'before': d2['from'], 'after': d2['to']})
            if d.get('expect') and norm_ws(d['expect']) not in norm_ws(header):
                raise ExtractError('%s: loop %d header changed: `%s`' % (unit, k, header.strip()))
            pre, nh, bp, suf = apply_loop_rule(d.get('rule'), header, ghost, log, unit)
            edits.append((s, he + 1, pre + nh + '\n' + ghost + '\n{ ' + bp + body_start_ghost.get(k, '')))
            if suf:
                edits.append((close + 1, close + 1, suf))
        elif kind in ('before', 'after'):
            anchor = d['anchor']
            idxs = [m.start() for m in re.finditer(re.escape(anchor), body)]
            idxs = [i for i in idxs if mbody[i] == body[i]]
            if d['n'] >= len(idxs) or -d['n'] > len(idxs):
                raise ExtractError('%s: anchor `%s` #%d not found' % (unit, anchor, d['n']))
            at = idxs[d['n']]
            if kind == 'after':
                at += len(anchor)
            edits.append((at, at, '\n// GHOST-BEGIN\n' + ghost + '// GHOST-END\n'))
        elif kind == 'pre':
            edits.append((0, 0, '\n// GHOST-BEGIN\n' + ghost + '// GHOST-END\n'))
        elif kind == 'hoist':
            # HL: a statement `[let x =] E.rest..` whose evaluation starts with E becomes `let NAME = E; <ghost> [let x =] NAME.rest..`
            # (E is evaluated first either way; E must be the leading sub-expression of its statement)
            pat = r'\s*'.join(re.escape(tok) for tok in re.findall(r'\w+|[^\w\s]', d['expr']))
            ms = [m for m in re.finditer(pat, body) if mbody[m.start()] == body[m.start()]]
            if len(ms) != 1:
                raise ExtractError('%s: hoist `%s` expected 1 occurrence, found %d' % (unit, d['expr'], len(ms)))
            m = ms[0]
            depth, last = 0, -1
            for j, ch in enumerate(mbody[:m.start()]):
                if ch in '([{':
                    depth += 1
                elif ch in ')]}':
                    depth -= 1
                elif ch == ';' and depth == 0:
                    last = j
            lead = body[last + 1:m.start()]
            if depth != 0 or not re.fullmatch(r'\s*(let\s+(mut\s+)?\w+\s*(:[^=;]+)?=\s*)?', lead):
                raise ExtractError('%s: hoist `%s`: not the leading sub-expression of its statement (`%s`)' % (unit, d['expr'], lead.strip()))
            ss = last + 1
            edits.append((ss, ss, '\nlet %s = %s;\n// GHOST-BEGIN\n%s// GHOST-END\n' % (d['name'], body[m.start():m.end()], ghost)))
            edits.append((m.start(), m.end(), d['name']))
            log.append({'unit': unit, 'rule': 'HL', 'before': norm_ws(d['expr'])[:80], 'after': 'let %s = <that expression>; .. %s ..' % (d['name'], d['name'])})
        elif kind == 'tail':
            # TL: the tail expression `E` of the body becomes `let NAME = E; <ghost> NAME` (same value, same evaluation order)
            depth, last = 0, -1
            for j, ch in enumerate(mbody):
                if ch in '([{':
                    depth += 1
                elif ch in ')]}':
                    depth -= 1
                elif ch == ';' and depth == 0:
                    last = j
            ts = last + 1
            while ts < len(body) and body[ts].isspace():
                ts += 1
            # block statements (`for .. { }`, `while`, `loop`, `if .. { } else { }`) in front of the tail expression end without `;`
            while True:
                mk = re.match(r'(for|while|loop|if)\b', mbody[ts:])
                if not mk:
                    break
                ob = mbody.find('{', ts)
                if ob < 0:
                    break
                ts = match_close(mbody, ob) + 1
                while True:
                    while ts < len(body) and body[ts].isspace():
                        ts += 1
                    me = re.match(r'else\b', mbody[ts:])
                    if not me:
                        break
                    ob = mbody.find('{', ts)
                    ts = match_close(mbody, ob) + 1
            te = len(body.rstrip())
            if ts >= te or re.match(r'(if|for|while|loop|let|unsafe|return)\b|\{', body[ts:]):
                raise ExtractError('%s: no plain tail expression to bind (found `%s`)' % (unit, body[ts:ts + 30]))
            edits.append((ts, ts, 'let %s%s = ' % (d['name'], (': ' + d['type']) if d.get('type') else '')))
            edits.append((te, te, ';\n// GHOST-BEGIN\n' + ghost + '// GHOST-END\n' + d['name'] + '\n'))
            log.append({'unit': unit, 'rule': 'TL', 'before': norm_ws(body[ts:te])[:80], 'after': 'let %s = <that expression>; %s' % (d['name'], d['name'])})
        elif kind == 'rewrite':
            a, b, rule = d['from'], d['to'], d['rule']
            if rule not in REWRITE_RULES or not REWRITE_RULES[rule](a, b):
                raise ExtractError('%s: rewrite `%s` => `%s` is not an instance of rule %s' % (unit, a, b, rule))
            pat = r'\s+'.join(re.escape(tok) for tok in a.split())
            ms = [m for m in re.finditer(pat, body) if mbody[m.start()] == body[m.start()]]
            if (d['count'] == 0 and not ms) or (d['count'] > 0 and len(ms) != d['count']):
                raise ExtractError('%s: rewrite `%s` expected %d occurrence(s), found %d' % (unit, a, d['count'], len(ms)))
            for m in ms:
                if m.start() in in_header:
                    continue          # already applied to the text of a rewritten loop header
                edits.append((m.start(), m.end(), b))
                log.append({'unit': unit, 'rule': rule, 'before': a, 'after': b})
    # loops with no directive are kept verbatim (Verus will demand invariants if it needs them)
    edits = [e for _, e in sorted(enumerate(edits), key=lambda ie: (ie[1][0], ie[1][1], 0 if 'AFTERLOOP' in ie[1][2] else 1, ie[0]))]
    for (a, b), (c, d2) in zip([(e[0], e[1]) for e in edits], [(e[0], e[1]) for e in edits[1:]]):
        if c < b:
            raise ExtractError('%s: overlapping edits at %d..%d / %d..%d' % (unit, a, b, c, d2))
    out = []
    pos = 0
    for s, e, r in edits:
        out.append(body[pos:s])
        out.append(r)
        pos = e
    out.append(body[pos:])
    return ''.join(out)


# ----------------------------------------------------------------------------------------------
# template processing

def parse_q(s):
    """parse a double-quoted string with \\" escapes at start of s; return (value, rest)"""
    s = s.lstrip()
    if not s.startswith('"'):
        raise ExtractError('expected quoted string: %s' % s)
    i = 1
    out = []
    while i < len(s) and s[i] != '"':
        if s[i] == '\\' and i + 1 < len(s):
            out.append(s[i + 1])
            i += 2
        else:
            out.append(s[i])
            i += 1
    return ''.join(out), s[i + 1:]


def read_hdr(cid):
    p = os.path.join(VERIF, 'contracts', cid + '.hdr')
    if not os.path.exists(p):
        raise ExtractError('no contract header %s' % p)
    lines = open(p).read().split('\n')
    sig = None
    keep = []
    for ln in lines:
        if ln.startswith('//@sig '):
            sig = ln[len('//@sig '):]
        else:
            keep.append(ln)
    return sig, '\n'.join(keep).rstrip() + '\n'


def process(template_path, info, out_lines, depth=0):
    lines = open(template_path).read().split('\n')
    i = 0
    while i < len(lines):
        ln = lines[i]
        s = ln.strip()
        if s.startswith('//@include '):
            inc = s.split(None, 1)[1].strip()
            if inc not in info['includes']:      # include-once
                info['includes'].append(inc)
                process(os.path.join(VERIF, inc), info, out_lines, depth + 1)
            i += 1
        elif s.startswith('//@assume '):
            cid = s.split()[1]
            _, hdr = read_hdr(cid)
            info['assumed_contracts'].append(cid)
            out_lines.append('// ASSUMED-CONTRACT(%s): proved in its own unit' % cid)
            out_lines.append('#[verifier::external_body]')
            out_lines.extend(hdr.rstrip('\n').split('\n'))
            out_lines.append('{ unimplemented!() }')
            i += 1
        elif s.startswith('//@canary '):
            # vacuity canary: same signature and `requires` as the contract, body `assert(false)`; MUST be refuted
            cid = s.split()[1]
            _, hdr = read_hdr(cid)
            h = re.sub(r'\bfn\s+(\w+)', lambda m: 'fn canary_%s' % cid, hdr, count=1)
            h = re.sub(r'^\s*pub\s+', '', h)
            h = re.split(r'\n\s*ensures\b', h)[0].rstrip().rstrip(',') + ','
            if 'requires' not in h:
                h = h.rstrip(',')
            out_lines.append('// CANARY(%s): must fail' % cid)
            out_lines.extend(h.split('\n'))
            out_lines.append('{ assert(false); vstd::pervasive::unreached() }')
            info.setdefault('canaries', []).append('canary_' + cid)
            i += 1
        elif s.startswith('//@unit '):
            m = re.match(r'//@unit\s+(\S+)\s+(\S+)\s*::\s*(.*?)\s*::\s*(\w+)\s*(#\d+)?\s*$', s)
            if not m:
                raise ExtractError('bad @unit line: %s' % s)
            cid, rel, scope, fn = m.group(1), m.group(2), m.group(3), m.group(4)
            nth = int(m.group(5)[1:]) if m.group(5) else 0
            i += 1
            inline = []
            while not lines[i].strip().startswith('//@body'):
                inline.append(lines[i])
                i += 1
            i += 1
            directives = []
            sig = None
            cur = None
            while not lines[i].strip().startswith('//@end'):
                t = lines[i].strip()
                if t.startswith('//@sig '):
                    sig = t[len('//@sig '):]
                    cur = None
                elif t.startswith('//@loop '):
                    parts = t.split()
                    cur = {'kind': 'loop', 'n': int(parts[1]), 'rule': parts[2] if len(parts) > 2 else None, 'text': ''}
                    directives.append(cur)
                elif (t.startswith('//@before') or t.startswith('//@after')) and not t.startswith('//@beforeloop') and not t.startswith('//@afterstmt') and not t.startswith('//@afterloop'):
                    kind = 'before' if t.startswith('//@before') else 'after'
                    rest = t[len('//@' + kind):].strip()
                    n = 0
                    mm = re.match(r'#(-?\d+)\s*(.*)', rest)
                    if mm:
                        n, rest = int(mm.group(1)), mm.group(2)
                    anchor, _ = parse_q(rest)
                    cur = {'kind': kind, 'n': n, 'anchor': anchor, 'text': ''}
                    directives.append(cur)
                elif t.startswith('//@afterloop '):
                    cur = {'kind': 'afterloop', 'n': int(t.split()[1]), 'text': ''}
                    directives.append(cur)
                elif t.startswith('//@beforeloop '):
                    cur = {'kind': 'beforeloop', 'n': int(t.split()[1]), 'text': ''}
                    directives.append(cur)
                elif t.startswith('//@afterstmt'):
                    rest = t[len('//@afterstmt'):].strip()
                    n = 0
                    mm = re.match(r'#(-?\d+)\s*(.*)', rest)
                    if mm:
                        n, rest = int(mm.group(1)), mm.group(2)
                    anchor, _ = parse_q(rest)
                    cur = {'kind': 'afterstmt', 'n': n, 'anchor': anchor, 'text': ''}
                    directives.append(cur)
                elif t.startswith('//@loopbody '):
                    parts = t.split()
                    cur = {'kind': 'loopbody', 'n': int(parts[1]), 'where': parts[2] if len(parts) > 2 else 'start', 'text': ''}
                    directives.append(cur)
                elif t.startswith('//@pre'):
                    cur = {'kind': 'pre', 'text': ''}
                    directives.append(cur)
                elif t.startswith('//@hoist '):
                    parts = t.split(None, 2)
                    expr, _ = parse_q(parts[2])
                    cur = {'kind': 'hoist', 'name': parts[1], 'expr': expr, 'text': ''}
                    directives.append(cur)
                elif t.startswith('//@tail '):
                    tm = re.match(r'//@tail\s+(\w+)\s*(?::\s*(.+))?$', t)
                    cur = {'kind': 'tail', 'name': tm.group(1), 'type': tm.group(2), 'text': ''}
                    directives.append(cur)
                elif t.startswith('//@rewrite '):
                    rest = t[len('//@rewrite '):].strip()
                    rule, rest = rest.split(None, 1)
                    cnt = 1
                    mm = re.match(r'x(\d+|\*|\?)\s+(.*)', rest)
                    if mm:
                        # `x*`: every occurrence (at least one), `x?`: every occurrence (possibly none) - for call wrappers whose number of
                        # uses may legitimately change
                        cnt, rest = ({'*': 0, '?': -1}.get(mm.group(1)) if mm.group(1) in '*?' else int(mm.group(1))), mm.group(2)
                    a, rest = parse_q(rest)
                    rest = rest.strip()
                    if not rest.startswith('=>'):
                        raise ExtractError('bad rewrite: %s' % t)
                    b, _ = parse_q(rest[2:])
                    directives.append({'kind': 'rewrite', 'rule': rule, 'from': a, 'to': b, 'count': cnt, 'text': ''})
                    cur = None
                elif t.startswith('//@'):
                    raise ExtractError('unknown directive in unit %s: %s' % (cid, t))
                else:
                    if cur is not None:
                        cur['text'] += lines[i] + '\n'
                    elif t:
                        raise ExtractError('stray text in unit %s body section: %s' % (cid, t))
                i += 1
            i += 1
            hdr_sig = None
            if any(x.strip() for x in inline):
                hdr = '\n'.join(inline) + '\n'
            else:
                hdr_sig, hdr = read_hdr(cid)
            sig = sig or hdr_sig
            text, masked, (fs, bo, bc) = locate(rel, scope, fn, nth)
            real_sig = text[fs:bo]
            if sig is None:
                raise ExtractError('unit %s has no //@sig fingerprint' % cid)
            if norm_ws(sig) != norm_ws(real_sig):
                raise ExtractError('unit %s: signature changed in %s:\n  expected: %s\n  found:    %s' % (cid, rel, norm_ws(sig), norm_ws(real_sig)))
            body = text[bo + 1:bc]
            log = []
            new_body = transform_body(cid, body, directives, log)
            new_body = debug_asserts(cid, new_body, log)
            line_no = text.count('\n', 0, fs) + 1
            start_line = len(out_lines) + 1
            out_lines.append('// UNIT(%s): body extracted from %s:%d' % (cid, rel, line_no))
            out_lines.extend(hdr.rstrip('\n').split('\n'))
            out_lines.append('{')
            out_lines.extend(new_body.split('\n'))
            out_lines.append('}')
            fname = re.search(r'\bfn\s+(\w+)', hdr)
            info['units'].append({
                'id': cid, 'file': rel, 'line': line_no, 'scope': scope, 'fn': fn,
                'verus_fn': fname.group(1) if fname else fn,
                'body_sha256': hashlib.sha256(body.encode()).hexdigest()[:16],
                'gen_lines': [start_line, len(out_lines)],
                'rewrites': log,
                'loops': len(find_loops(body, mask(body))),
            })
        else:
            out_lines.append(ln)
            i += 1


def generate(group, outdir):
    tpl = os.path.join(VERIF, 'units', group + '.rs.in')
    info = {'group': group, 'units': [], 'assumed_contracts': [], 'includes': []}
    out_lines = []
    process(tpl, info, out_lines)
    os.makedirs(outdir, exist_ok=True)
    out = os.path.join(outdir, group + '.rs')
    txt = '\n'.join(out_lines) + '\n'
    open(out, 'w').write(txt)
    info['out'] = out
    # assumption scan
    info['assume_sites'] = scan_assumptions(txt)
    return info


ASSUME_PAT = re.compile(r'external_body|assume_specification|\badmit\s*\(|\bassume\s*\(|external_type_specification|\buninterp\b|#\[verifier::external\]')


def scan_assumptions(txt):
    """Return list of (line, tag or None, text) for every trusted construct in the assembled file."""
    sites = []
    lines = txt.split('\n')
    for i, ln in enumerate(lines):
        if ASSUME_PAT.search(mask(ln) if '//' in ln else ln):
            # look back up to 3 lines for an ASSUME(...) or ASSUMED-CONTRACT(...) tag
            tag = None
            for k in range(i, max(-1, i - 4), -1):
                m = re.search(r'(ASSUME|ASSUMED-CONTRACT)\(([^)]+)\)', lines[k])
                if m:
                    tag = m.group(1) + ':' + m.group(2)
                    break
            sites.append({'line': i + 1, 'tag': tag, 'text': ln.strip()[:120]})
    return sites


if __name__ == '__main__':
    try:
        inf = generate(sys.argv[1], sys.argv[2] if len(sys.argv) > 2 else os.path.join(VERIF, 'build'))
        json.dump(inf, sys.stdout, indent=1)
    except ExtractError as e:
        print('EXTRACT-ERROR:', e, file=sys.stderr)
        sys.exit(2)
