//! Native bounded sweeps: every backend of the REAL library against naive re-implementations of the spec functions.
//! Reported under coverage.bounded / native_cross_check - never counted as proof.
use std::panic::{catch_unwind, AssertUnwindSafe};

use lightmotif::abc::{Alphabet, AminoAcid, Background, Dna, Nucleotide, Protein, Pseudocounts, Symbol};
use lightmotif::dense::{DenseMatrix, MatrixCoordinates};
use lightmotif::num::{Unsigned, U16, U32};
use lightmotif::pli::{Encode, Maximum, Pipeline, Score, Stripe, Threshold};
use lightmotif::pwm::{CountMatrix, FrequencyMatrix, ScoringMatrix};
use lightmotif::scores::StripedScores;
use lightmotif::seq::{EncodedSequence, StripedSequence, SymbolCount};

use crate::rng::Rng;
use lightmotif::pli::dispatch::Dispatch;

/// every arm of the runtime dispatcher, driven on this host through the `verif-hooks` override
fn arms() -> Vec<(&'static str, Dispatch)> { vec![("dispatch[generic]", Dispatch::Generic), ("dispatch[sse2]", Dispatch::Sse2), ("dispatch[avx2]", Dispatch::Avx2)] }

fn panic_loc() -> String { crate::LAST_PANIC.lock().map(|g| g.clone()).unwrap_or_default() }
fn jesc(s: &str) -> String { s.replace('\\', "\\\\").replace('"', "'") }
fn fail(unit: &str, what: String, case: String) -> String {
    format!("{{\"unit\":\"{}\",\"what\":\"{}\",\"case\":\"{}\"}}", unit, jesc(&what), jesc(&case))
}

fn rand_syms<A: Alphabet>(rng: &mut Rng, len: usize, wild: bool) -> Vec<A::Symbol> {
    let syms = A::symbols();
    let k = if wild { syms.len() } else { syms.len() - 1 };
    (0..len).map(|_| syms[rng.below(k)]).collect()
}
fn text<A: Alphabet>(s: &[A::Symbol]) -> String { s.iter().map(|c| c.as_char()).collect() }

fn rand_pssm<A: Alphabet>(rng: &mut Rng, m: usize, ninf: bool) -> (Vec<Vec<f32>>, ScoringMatrix<A>) {
    let k = A::K::USIZE;
    let mut cells = Vec::new();
    let mut data = DenseMatrix::<f32, A::K>::new(m);
    for i in 0..m {
        let mut row = vec![0f32; k];
        for j in 0..k - 1 { row[j] = (rng.below(65) as f32 - 32.0) / 8.0; }
        row[k - 1] = if ninf { f32::NEG_INFINITY } else { (rng.below(17) as f32 - 8.0) / 4.0 };
        for j in 0..k { data[i][j] = row[j]; }
        cells.push(row);
    }
    (cells, ScoringMatrix::new(Background::uniform(), data))
}
fn naive_score<S: Symbol>(cells: &[Vec<f32>], s: &[S], i: usize) -> f32 {
    let mut x = 0.0f32;
    for j in 0..cells.len() { x += cells[j][s[i + j].as_index()]; }
    x
}
fn feq(a: f32, b: f32) -> bool { a == b || (a.is_nan() && b.is_nan()) }

// ---------------------------------------------------------------- C01 -------------------------------------------------
fn c01_one<A: Alphabet>(rng: &mut Rng, l: usize, m: usize, fails: &mut Vec<String>, n: &mut usize)
where
    Pipeline<A, lightmotif::pli::platform::Avx2>: Score<f32, A, U32>,
    Pipeline<A, lightmotif::pli::dispatch::Dispatch>: Score<f32, A, U32> + Stripe<A, U32>,
{
    let wild = rng.below(3) == 0;
    let s = rand_syms::<A>(rng, l, wild);
    let ninf = rng.below(2) == 0;
    let (cells, pssm) = rand_pssm::<A>(rng, m, ninf);
    let want: Vec<f32> = if l >= m { (0..=l - m).map(|i| naive_score(&cells, &s, i)).collect() } else { vec![] };
    let case = format!("alphabet K={} L={} M={} seq={}", A::K::USIZE, l, m, text::<A>(&s[..s.len().min(80)]));
    macro_rules! check { ($name:expr, $got:expr) => {{
        *n += 1;
        match catch_unwind(AssertUnwindSafe(|| $got)) {
            Err(_) => fails.push(fail("pli_score", format!("{}: panic at {}", $name, panic_loc()), case.clone())),
            Ok(v) => {
                let v: Vec<f32> = v;
                if v.len() != want.len() { fails.push(fail("pli_score", format!("{}: {} values, expected L-M+1 = {}", $name, v.len(), want.len()), case.clone())); }
                else if let Some(i) = (0..v.len()).find(|&i| !feq(v[i], want[i])) { fails.push(fail("pli_score", format!("{}: position {} scores {} expected {}", $name, i, v[i], want[i]), case.clone())); }
            }
        }
    }}; }
    // 32 columns: generic, sse2, avx2, dispatch ; reconfiguration history: short motif first, then this one
    let mut st32: StripedSequence<A, U32> = Pipeline::<A, _>::generic().stripe(&s[..]);
    if rng.below(2) == 0 { st32.configure_wrap(rng.below(3)); }
    st32.configure(&pssm);
    check!("generic/32", Pipeline::<A, _>::generic().score(&pssm, &st32).unstripe().to_vec());
    check!("sse2/32", Pipeline::<A, _>::sse2().unwrap().score(&pssm, &st32).unstripe().to_vec());
    if let Ok(p) = Pipeline::<A, _>::avx2() { check!("avx2/32", p.score(&pssm, &st32).unstripe().to_vec()); }
    check!("dispatch/32", Pipeline::<A, _>::dispatch().score(&pssm, &st32).unstripe().to_vec());
    for (nm, arm) in arms() { check!(nm, Pipeline::<A, Dispatch>::with_backend(arm.clone()).score(&pssm, &st32).unstripe().to_vec()); }
    // single-position rescoring (ScoringMatrix::score_position) on sequences with NO / fewer / exactly / more look-ahead rows than the motif needs
    if l >= m {
        for hist in 0..4 {
            let mut sq: StripedSequence<A, U32> = Pipeline::<A, _>::generic().stripe(&s[..]);
            match hist { 1 => { if m > 2 { sq.configure_wrap(1 + rng.below(m - 2)); } } 2 => sq.configure(&pssm), 3 => sq.configure_wrap(m + 2), _ => {} }
            *n += 1;
            match catch_unwind(AssertUnwindSafe(|| (0..=l - m).map(|i| pssm.score_position(&sq, i)).collect::<Vec<f32>>())) {
                Err(_) => fails.push(fail("pwm_score_position", format!("history {}: panic at {}", hist, panic_loc()), case.clone())),
                Ok(v) => if let Some(i) = (0..v.len()).find(|&i| !feq(v[i], want[i])) { fails.push(fail("pwm_score_position", format!("history {} (wrap {}): position {} scores {} expected {}", hist, sq.wrap(), i, v[i], want[i]), case.clone())); }
            }
        }
    }
    // a CLONE of the configured sequence scores like the original; Vec::from(scores) is the same list as unstripe(), also when it is empty
    check!("dispatch/32 clone", Pipeline::<A, _>::dispatch().score(&pssm, &st32.clone()).unstripe().to_vec());
    check!("dispatch/32 Vec::from", Vec::<f32>::from(Pipeline::<A, _>::dispatch().score(&pssm, &st32)));
    check!("generic/32 Vec::from", Vec::<f32>::from(Pipeline::<A, _>::generic().score(&pssm, &st32)));
    // the result container: iteration (both directions), indexing, exact length, and the linear `Scores` view
    {
        *n += 1;
        match catch_unwind(AssertUnwindSafe(|| {
            let sc = Pipeline::<A, _>::dispatch().score(&pssm, &st32);
            let fwd: Vec<f32> = sc.iter().cloned().collect();
            let mut bwd: Vec<f32> = sc.iter().rev().cloned().collect(); bwd.reverse();
            let idx: Vec<f32> = (0..want.len()).map(|i| sc[i]).collect();
            let lin = sc.unstripe();
            (fwd, bwd, idx, sc.iter().len(), sc.max_index(), lin.len(), lin.argmax(), lin.max())
        })) {
            Err(_) => fails.push(fail("scores_iter", format!("panic at {}", panic_loc()), case.clone())),
            Ok((fwd, bwd, idx, ilen, mi, llen, lam, lmax)) => {
                let same = |a: &Vec<f32>| a.len() == want.len() && (0..a.len()).all(|i| feq(a[i], want[i]));
                let mut bad = Vec::new();
                if !same(&fwd) { bad.push("iter()"); } if !same(&bwd) { bad.push("iter().rev()"); } if !same(&idx) { bad.push("Index<usize>"); }
                if ilen != want.len() || mi != want.len() || llen != want.len() { bad.push("len / max_index"); }
                if !want.is_empty() && !want.iter().any(|x| x.is_nan()) {
                    let best = want.iter().cloned().fold(f32::NEG_INFINITY, f32::max);
                    match (lam, lmax) { (Some(i), Some(v)) => { if i >= want.len() || !feq(want[i], best) || !feq(v, best) { bad.push("Scores::argmax / max"); } } _ => bad.push("Scores::argmax / max (None)") }
                }
                if !bad.is_empty() { fails.push(fail("scores_iter", format!("{:?} disagree(s) with the L-M+1 position scores", bad), case.clone())); }
            }
        }
    }
    // REUSED score buffers: a buffer that still holds the scores of another (longer) sequence must end up with exactly the
    // scores of this one - none when L < M - and an empty row range must leave it empty
    {
        let other = rand_syms::<A>(rng, 90 + m, false);
        let mut so: StripedSequence<A, U32> = Pipeline::<A, _>::generic().stripe(&other[..]); so.configure(&pssm);
        macro_rules! reuse { ($name:expr, $p:expr) => {{ let p = $p;
            check!(concat!($name, "/reused buffer"), { let mut buf = StripedScores::<f32, U32>::empty(); p.score_into(&pssm, &so, &mut buf); p.score_into(&pssm, &st32, &mut buf); buf.unstripe().to_vec() });
            *n += 1;
            match catch_unwind(AssertUnwindSafe(|| { let mut buf = StripedScores::<f32, U32>::empty(); p.score_into(&pssm, &so, &mut buf); p.score_rows_into(&pssm, &st32, 1..1, &mut buf); (buf.matrix().rows(), buf.unstripe().len()) })) {
                Ok((0, 0)) => {}
                Ok((r, k)) => fails.push(fail("pli_score", format!("{}: an empty row range left {} rows / {} values of the previous sequence in the buffer", $name, r, k), case.clone())),
                Err(_) => fails.push(fail("pli_score", format!("{}: empty row range: panic at {}", $name, panic_loc()), case.clone())),
            }
        }}; }
        reuse!("generic/32", Pipeline::<A, _>::generic());
        reuse!("sse2/32", Pipeline::<A, _>::sse2().unwrap());
        if let Ok(p) = Pipeline::<A, _>::avx2() { reuse!("avx2/32", p); }
        reuse!("dispatch/32", Pipeline::<A, _>::dispatch());
    }
    // row sub-range through score_rows_into (dispatch): values of rows [a, b) must match
    let rows = st32.matrix().rows() - st32.wrap();
    if rows > 0 && l >= m {
        let a = rng.below(rows); let b = a + 1 + rng.below(rows - a);
        *n += 1;
        let r = catch_unwind(AssertUnwindSafe(|| { let mut sc = StripedScores::<f32, U32>::empty(); Pipeline::<A, _>::dispatch().score_rows_into(&pssm, &st32, a..b, &mut sc); (0..b - a).map(|r| sc.matrix()[r].to_vec()).collect::<Vec<_>>() }));
        match r {
            Err(_) => fails.push(fail("pli_score", format!("dispatch rows {}..{}: panic at {}", a, b, panic_loc()), case.clone())),
            Ok(mat) => for (r, row) in mat.iter().enumerate() { for c in 0..32 { let p = c * rows + a + r; if p < want.len() && !feq(row[c], want[p]) { fails.push(fail("pli_score", format!("dispatch rows {}..{}: cell ({},{}) = {} expected {}", a, b, r, c, row[c], want[p]), case.clone())); } } }
        }
    }
    // 16 columns: generic and sse2
    let mut st16: StripedSequence<A, U16> = Pipeline::<A, _>::generic().stripe(&s[..]);
    st16.configure(&pssm);
    check!("generic/16", Pipeline::<A, _>::generic().score(&pssm, &st16).unstripe().to_vec());
    check!("sse2/16", Pipeline::<A, _>::sse2().unwrap().score(&pssm, &st16).unstripe().to_vec());
}

pub fn sweep_c01(tier: &str, seed: u64) -> (usize, Vec<String>) {
    let mut rng = Rng::new(seed ^ 0xc01);
    let mut fails = Vec::new();
    let mut n = 0;
    let mut lens: Vec<usize> = (0..=70).collect();
    lens.extend_from_slice(&[95, 96, 97, 1023, 1024, 1025, 32 * 256 - 1, 32 * 256, 32 * 256 + 1]);
    let reps = if tier == "thorough" { 4 } else { 1 };
    for _ in 0..reps { for &l in &lens { for m in [1usize, 2, 3, 7] {
        if l > 2000 && m != 3 { continue; }
        c01_one::<Dna>(&mut rng, l, m, &mut fails, &mut n);
        c01_one::<Protein>(&mut rng, l, m, &mut fails, &mut n);
        if fails.len() > 3 { return (n, fails); }
    } } }
    (n, fails)
}

// ---------------------------------------------------------------- C04 -------------------------------------------------
fn check_striped<A: Alphabet, C: lightmotif::num::StrictlyPositive + lightmotif::num::ArrayLength>(name: &str, st: &StripedSequence<A, C>, s: &[A::Symbol], case: &str, fails: &mut Vec<String>) {
    let c = C::USIZE;
    let l = s.len();
    let r = (l + c - 1) / c;
    if st.len() != l { fails.push(fail("pli_stripe", format!("{}: len() = {} expected {}", name, st.len(), l), case.into())); return; }
    if st.matrix().rows() != r + st.wrap() { fails.push(fail("pli_stripe", format!("{}: {} rows with wrap {} expected R = {}", name, st.matrix().rows(), st.wrap(), r), case.into())); return; }
    let w = A::default_symbol();
    for row in 0..r { for col in 0..c {
        let p = col * r + row;
        let want = if p < l { s[p] } else { w };
        if st.matrix()[row][col] != want { fails.push(fail("pli_stripe", format!("{}: cell ({},{}) wrong", name, row, col), case.into())); return; }
    } }
    for k in 0..st.wrap() { for col in 0..c {
        let want = if col + 1 < c { st.matrix()[k][col + 1] } else { w };
        if st.matrix()[r + k][col] != want { fails.push(fail("seq_configure_wrap", format!("{}: look-ahead row {} column {} is not row {} shifted", name, k, col, k), case.into())); return; }
    } }
    for p in 0..l { if st[p] != s[p] { fails.push(fail("seq_index", format!("{}: striped[{}] != seq[{}]", name, p, p), case.into())); return; } }
    let cs = SymbolCount::<A>::count_symbols(st);
    for sym in A::symbols() {
        let want = s.iter().filter(|x| *x == sym).count();
        if cs[sym.as_index()] != want || st.count_symbol(*sym) != want { fails.push(fail("seq_count_symbols", format!("{}: symbol count differs from the linear sequence", name), case.into())); return; }
    }
}

pub fn sweep_c04(tier: &str, seed: u64) -> (usize, Vec<String>) {
    let mut rng = Rng::new(seed ^ 0xc04);
    let mut fails = Vec::new();
    let mut n = 0;
    let mut lens: Vec<usize> = (0..=100).collect();
    lens.extend_from_slice(&[991, 992, 993, 1023, 1024, 1025, 1055, 1056, 1057, 2047, 2048, 2049, 2050, 3000]);
    let reps = if tier == "thorough" { 4 } else { 1 };
    // reused buffers: one per backend, striped into again and again with varying lengths (incl. 0) and configure calls in between
    let mut buf_g: StripedSequence<Dna, U32> = Default::default();
    let mut buf_a: StripedSequence<Dna, U32> = Default::default();
    let mut buf_d: StripedSequence<Dna, U32> = Default::default();
    let mut lens2 = lens.clone(); lens2.extend_from_slice(&[0, 5, 0, 2050, 0, 33, 2050, 700, 3000, 100, 64, 33, 1]);   // empty sequence into a reused, non-empty buffer; then SHRINKING non-empty reuse (long, then shorter: rows that held symbols of the longer sequence become look-ahead rows of the shorter one)
    for rep in 0..reps { for &l in &lens2 {
        let l = if rep > 0 && rng.below(5) == 0 { 0 } else { l };
        let wild = rng.below(3) == 0;
        let s = rand_syms::<Dna>(&mut rng, l, wild);
        let case = format!("L={} seq={}", l, text::<Dna>(&s[..s.len().min(60)]));
        let r = catch_unwind(AssertUnwindSafe(|| {
            let mut f = Vec::new();
            let g = Pipeline::<Dna, _>::generic();
            check_striped("generic/32 fresh", &Stripe::<Dna, U32>::stripe(&g, &s[..]), &s, &case, &mut f);
            check_striped("generic/16 fresh", &Stripe::<Dna, U16>::stripe(&g, &s[..]), &s, &case, &mut f);
            check_striped("generic/1 fresh", &Stripe::<Dna, lightmotif::num::U1>::stripe(&g, &s[..]), &s, &case, &mut f);
            check_striped("generic/4 fresh", &Stripe::<Dna, lightmotif::num::U4>::stripe(&g, &s[..]), &s, &case, &mut f);
            let d = Pipeline::<Dna, _>::dispatch();
            check_striped("dispatch/32 fresh", &d.stripe(&s[..]), &s, &case, &mut f);
            for (nm, arm) in arms() { check_striped(nm, &Pipeline::<Dna, Dispatch>::with_backend(arm).stripe(&s[..]), &s, &case, &mut f); }
            g.stripe_into(&s[..], &mut buf_g); check_striped("generic/32 reused", &buf_g, &s, &case, &mut f);
            d.stripe_into(&s[..], &mut buf_d); check_striped("dispatch/32 reused", &buf_d, &s, &case, &mut f);
            if let Ok(a) = Pipeline::<Dna, _>::avx2() {
                check_striped("avx2/32 fresh", &a.stripe(&s[..]), &s, &case, &mut f);
                a.stripe_into(&s[..], &mut buf_a); check_striped("avx2/32 reused", &buf_a, &s, &case, &mut f);
            }
            // other routes to a striped sequence, and the protein alphabet (21 symbols)
            {
                let enc = EncodedSequence::<Dna>::new(s.clone());
                check_striped("EncodedSequence::to_striped", &enc.to_striped::<U32>(), &s, &case, &mut f);
                check_striped("From<EncodedSequence>", &StripedSequence::<Dna, U32>::from(enc.clone()), &s, &case, &mut f);
                let st = enc.to_striped::<U32>();
                let m1: DenseMatrix<Nucleotide, U32> = st.clone().into_matrix(); let m2: DenseMatrix<Nucleotide, U32> = st.clone().into();
                if m1 != *st.matrix() || m2 != *st.matrix() { f.push(fail("seq_into_matrix", "into_matrix / From<StripedSequence> differ from matrix()".into(), case.clone())); }
                let ps: Vec<AminoAcid> = s.iter().enumerate().map(|(i, x)| Protein::symbols()[(x.as_index() * 5 + i) % 21]).collect();
                let gp = Pipeline::<Protein, _>::generic();
                check_striped("protein generic/32", &Stripe::<Protein, U32>::stripe(&gp, &ps[..]), &ps, &case, &mut f);
                check_striped("protein dispatch/32", &Pipeline::<Protein, _>::dispatch().stripe(&ps[..]), &ps, &case, &mut f);
                if let Ok(a) = Pipeline::<Protein, _>::avx2() { check_striped("protein avx2/32", &a.stripe(&ps[..]), &ps, &case, &mut f); }
            }
            // sequences whose padding cells are NOT wildcards (StripedSequence::new accepts any matrix; `sample` fills the padding
            // with random symbols): indexing and counting must still agree with the linear sequence
            if l > 0 {
                let r = (l + 31) / 32;
                let mut m = DenseMatrix::<Nucleotide, U32>::new(r);
                for row in 0..r { for col in 0..32 { let p = col * r + row; m[row][col] = if p < l { s[p] } else { Dna::symbols()[(p * 7) % 4] }; } }
                let mut st = StripedSequence::<Dna, U32>::new(m, l).unwrap();
                for round in 0..2 {
                    for p in 0..l { if st[p] != s[p] { f.push(fail("seq_index", format!("new(): striped[{}] != seq[{}]", p, p), case.clone())); break; } }
                    let cs = SymbolCount::<Dna>::count_symbols(&st);
                    for sym in Dna::symbols() { let want = s.iter().filter(|x| *x == sym).count(); if cs[sym.as_index()] != want || st.count_symbol(*sym) != want { f.push(fail("seq_count_symbols", format!("non-wildcard padding (round {}): count of {:?} = {} / {} expected {}", round, sym.as_char(), cs[sym.as_index()], st.count_symbol(*sym), want), case.clone())); break; } }
                    st.configure_wrap(3);
                }
            }
            // histories of configure_wrap on the reused buffers
            let hist = [rng.below(4), rng.below(9), rng.below(3), rng.below(40)];
            for (bname, b) in [("generic", &mut buf_g), ("dispatch", &mut buf_d), ("avx2", &mut buf_a)] {
                if bname == "avx2" && Pipeline::<Dna, lightmotif::pli::platform::Avx2>::avx2().is_err() { continue; }
                let mut maxw = 0;
                for &m in &hist { b.configure_wrap(m); maxw = maxw.max(m); if b.wrap() != maxw { f.push(fail("seq_configure_wrap", format!("{}: wrap {} after history {:?}", bname, b.wrap(), hist), case.clone())); }
                    check_striped(&format!("{}/32 reused+configure_wrap{:?}", bname, hist), b, &s, &case, &mut f); }
                // a clone carries the same rows AND the same look-ahead row count
                let c = b.clone();
                if c.wrap() != b.wrap() || c.len() != b.len() || c.matrix() != b.matrix() { f.push(fail("seq_clone", format!("{}: clone has wrap {} / len {} (original {} / {}) or a different matrix", bname, c.wrap(), c.len(), b.wrap(), b.len()), case.clone())); }
                check_striped(&format!("{}/32 clone after configure_wrap{:?}", bname, hist), &c, &s, &case, &mut f);
            }
            f
        }));
        n += 12;
        match r { Err(_) => fails.push(fail("pli_stripe", format!("panic at {}", panic_loc()), case)), Ok(f) => fails.extend(f) }
        if fails.len() > 3 { return (n, fails); }
    } }
    (n, fails)
}

// ---------------------------------------------------------------- C05 -------------------------------------------------
fn c05_alpha<A: Alphabet>(rng: &mut Rng, tier: &str, fails: &mut Vec<String>, n: &mut usize) {
    let letters = A::as_str().as_bytes().to_vec();
    let bad: Vec<u8> = (0u8..=255).filter(|b| !letters.contains(b)).collect();
    let maxl = if tier == "thorough" { 100 } else { 70 };
    let mut ls: Vec<usize> = (0..=maxl).collect(); ls.extend_from_slice(&[255, 256, 257, 300, 513, 1025]);
    for l in ls {
        let base: Vec<u8> = (0..l).map(|_| letters[rng.below(letters.len())]).collect();
        let mut inputs = vec![base.clone()];
        for p in 0..l { if l > 120 && p % 37 != 0 { continue; } let mut v = base.clone(); v[p] = bad[rng.below(bad.len())]; inputs.push(v); }
        for _ in 0..4.min(l) { let mut v = base.clone(); let p1 = rng.below(l); let p2 = rng.below(l); v[p1] = bad[rng.below(bad.len())]; v[p2] = bad[rng.below(bad.len())]; inputs.push(v); }
        if l > 0 { let mut v = base.clone(); v[rng.below(l)] = letters[0].to_ascii_lowercase(); inputs.push(v); }
        for inp in inputs {
            let want: Result<Vec<usize>, char> = { let mut out = Vec::new(); let mut err = None; for &b in &inp { match letters.iter().position(|x| *x == b) { Some(i) => out.push(i), None => { err = Some(b as char); break; } } } match err { Some(c) => Err(c), None => Ok(out) } };
            let case = format!("K={} input={:?}", A::K::USIZE, String::from_utf8_lossy(&inp));
            macro_rules! chk { ($name:expr, $e:expr) => {{ *n += 1;
                match catch_unwind(AssertUnwindSafe(|| $e)) {
                    Err(_) => fails.push(fail("pli_encode", format!("{}: panic at {}", $name, panic_loc()), case.clone())),
                    Ok(got) => { let got: Result<EncodedSequence<A>, lightmotif::err::InvalidSymbol> = got;
                        match (&got, &want) {
                            (Ok(e), Ok(w)) => { let idx: Vec<usize> = e.iter().map(|s| s.as_index()).collect(); if &idx != w { fails.push(fail("pli_encode", format!("{}: wrong symbols", $name), case.clone())); } else if e.to_string().as_bytes() != &inp[..] { fails.push(fail("pli_encode", format!("{}: display does not reproduce the input", $name), case.clone())); } }
                            (Err(e), Err(c)) => { if e.0 != *c { fails.push(fail("pli_encode", format!("{}: reported {:?}, first offending character is {:?}", $name, e.0, c), case.clone())); } }
                            (Ok(_), Err(c)) => fails.push(fail("pli_encode", format!("{}: accepted invalid byte {:?}", $name, c), case.clone())),
                            (Err(e), Ok(_)) => fails.push(fail("pli_encode", format!("{}: rejected valid input ({:?})", $name, e.0), case.clone())),
                        } }
                } }}; }
            chk!("generic", Pipeline::<A, _>::generic().encode(&inp));
            chk!("sse2", Pipeline::<A, _>::sse2().unwrap().encode(&inp));
            if let Ok(p) = Pipeline::<A, _>::avx2() { chk!("avx2", p.encode(&inp)); }
            chk!("dispatch", Pipeline::<A, _>::dispatch().encode(&inp));
            for (nm, arm) in arms() { chk!(nm, Pipeline::<A, Dispatch>::with_backend(arm.clone()).encode(&inp)); }
            chk!("EncodedSequence::encode", EncodedSequence::<A>::encode(&inp));
            // other entry points: FromStr, encode_into with a caller buffer (every backend), and the container API of the result
            if let Ok(txt) = std::str::from_utf8(&inp) { chk!("FromStr", txt.parse::<EncodedSequence<A>>()); }
            // the destination is the front part of a LARGER buffer holding a recognisable symbol (the first one): nothing past the
            // destination slice may be written (a vector store that runs one lane too far lands there)
            macro_rules! into { ($name:expr, $p:expr) => {{ let p = $p; chk!(concat!($name, "/encode_into"), { let mut big = vec![A::symbols()[0]; inp.len() + 40]; let l_ = inp.len(); let r_ = p.encode_into(&inp, &mut big[..l_]); if big[l_..].iter().any(|x| *x != A::symbols()[0]) { panic!("encode_into wrote past the end of the destination slice"); } big.truncate(l_); r_.map(|_| EncodedSequence::<A>::new(big)) }); }}; }
            into!("generic", Pipeline::<A, _>::generic()); into!("sse2", Pipeline::<A, _>::sse2().unwrap()); into!("dispatch", Pipeline::<A, _>::dispatch());
            if let Ok(p) = Pipeline::<A, _>::avx2() { into!("avx2", p); }
            if let (Ok(w), Ok(e)) = (&want, EncodedSequence::<A>::encode(&inp)) {
                *n += 1;
                let syms: Vec<A::Symbol> = w.iter().map(|&i| A::symbols()[i]).collect();
                let mut bad_api = Vec::new();
                if e.len() != w.len() || e.is_empty() != w.is_empty() { bad_api.push("len/is_empty"); }
                if (0..w.len()).any(|i| e[i] != syms[i]) { bad_api.push("Index"); }
                if (&e).into_iter().cloned().collect::<Vec<_>>() != syms { bad_api.push("IntoIterator"); }
                if EncodedSequence::<A>::from(syms.clone()).iter().cloned().collect::<Vec<_>>() != syms { bad_api.push("From<Vec>"); }
                if syms.iter().cloned().collect::<EncodedSequence<A>>().iter().cloned().collect::<Vec<_>>() != syms { bad_api.push("FromIterator"); }
                if !(e == syms) || (!syms.is_empty() && e == syms[..syms.len() - 1].to_vec()) { bad_api.push("PartialEq"); }
                if !EncodedSequence::<A>::default().is_empty() { bad_api.push("Default"); }
                let a: &[A::Symbol] = e.as_ref(); if a != &syms[..] { bad_api.push("AsRef"); }
                if !bad_api.is_empty() { fails.push(fail("encseq_api", format!("EncodedSequence {:?} disagree(s) with the symbols", bad_api), case.clone())); }
            }
            if fails.len() > 3 { return; }
        }
    }
}
pub fn sweep_c05(tier: &str, seed: u64) -> (usize, Vec<String>) {
    let mut rng = Rng::new(seed ^ 0xc05);
    let mut fails = Vec::new(); let mut n = 0;
    c05_alpha::<Dna>(&mut rng, tier, &mut fails, &mut n);
    c05_alpha::<Protein>(&mut rng, tier, &mut fails, &mut n);
    (n, fails)
}

// ---------------------------------------------------------------- C07 -------------------------------------------------
fn scores_from<T: lightmotif::dense::MatrixElement>(rows: &[Vec<T>]) -> StripedScores<T, U32> {
    let mut sc = StripedScores::<T, U32>::empty();
    // max_index is NOT always rows*32: the maximum is over every cell of the matrix, also those past the last valid position
    let mi = match rows.len() % 3 { 0 => rows.len() * 32, 1 => rows.len() * 32 / 2, _ => 0 };
    sc.resize(rows.len(), mi);
    for (i, r) in rows.iter().enumerate() { for j in 0..32 { sc.matrix_mut()[i][j] = r[j]; } }
    sc
}
pub fn sweep_c07(tier: &str, seed: u64) -> (usize, Vec<String>) {
    let mut rng = Rng::new(seed ^ 0xc07);
    let mut fails = Vec::new(); let mut n = 0;
    let reps = if tier == "thorough" { 30 } else { 6 };
    for nrows in [0usize, 1, 2, 3, 5, 33, 70, 300] { for rep in 0..reps {
        // f32: all-negative / mixed / with a unique peak placed in every column for some reps
        let neg = rep % 2 == 0;
        let mut rows: Vec<Vec<f32>> = (0..nrows).map(|_| (0..32).map(|_| { let x = rng.below(2000) as f32 / 16.0; if neg { -1.0 - x } else { x - 60.0 } }).collect()).collect();
        if nrows > 0 && rep % 3 == 0 { let (r, c) = (rng.below(nrows), rep % 32); rows[r][c] = if neg { -0.5 } else { 200.0 }; }
        if nrows > 0 && rep % 5 == 0 { let (r, c) = (rng.below(nrows), rng.below(32)); rows[r][c] = f32::NEG_INFINITY; }
        // no finite cell at all (every window overlaps a wildcard): the largest stored value is -inf itself; and a single, very low, finite cell
        if rep + 1 == reps { for r in rows.iter_mut() { for x in r.iter_mut() { *x = f32::NEG_INFINITY; } } }
        if rep + 2 == reps && nrows > 0 { for r in rows.iter_mut() { for x in r.iter_mut() { *x = f32::NEG_INFINITY; } } let (r, c) = (rng.below(nrows), rng.below(32)); rows[r][c] = -3.0e38; }
        let sc = scores_from(&rows);
        let best = rows.iter().flatten().cloned().fold(f32::NEG_INFINITY, f32::max);
        let t = rows.iter().flatten().nth(rng.below(nrows.max(1) * 32)).cloned().unwrap_or(0.0);
        let mut want_thr: Vec<(usize, usize)> = Vec::new();
        for (i, r) in rows.iter().enumerate() { for j in 0..32 { if r[j] >= t { want_thr.push((i, j)); } } }
        let case = format!("f32 rows={} neg={} best={}", nrows, neg, best);
        macro_rules! chkf { ($name:expr, $p:expr) => {{ n += 1; let p = $p;
            match catch_unwind(AssertUnwindSafe(|| (Maximum::<f32, U32>::max(&p, &sc), Maximum::<f32, U32>::argmax(&p, &sc), Threshold::<f32, U32>::threshold(&p, &sc, t)))) {
                Err(_) => fails.push(fail("pli_max", format!("{}: panic at {}", $name, panic_loc()), case.clone())),
                Ok((m, am, th)) => {
                    if nrows == 0 { if m.is_some() || am.is_some() { fails.push(fail("pli_max", format!("{}: Some on an empty matrix", $name), case.clone())); } }
                    else {
                        if m != Some(best) { fails.push(fail("pli_max", format!("{}: max = {:?}, largest cell is {}", $name, m, best), case.clone())); }
                        match am { None => fails.push(fail("pli_argmax", format!("{}: argmax None", $name), case.clone())), Some(mc) => if mc.row >= nrows || mc.col >= 32 || rows[mc.row][mc.col] != best { fails.push(fail("pli_argmax", format!("{}: argmax ({},{}) does not hold the maximum {}", $name, mc.row, mc.col, best), case.clone())); } }
                    }
                    let mut got: Vec<(usize, usize)> = th.iter().map(|c| (c.row, c.col)).collect(); got.sort();
                    if got != want_thr { fails.push(fail("pli_threshold", format!("{}: threshold set differs ({} cells, expected {})", $name, got.len(), want_thr.len()), case.clone())); }
                } } }}; }
        chkf!("generic", Pipeline::<Dna, _>::generic());
        chkf!("sse2", Pipeline::<Dna, _>::sse2().unwrap());
        if let Ok(p) = Pipeline::<Dna, _>::avx2() { chkf!("avx2", p); }
        chkf!("dispatch", Pipeline::<Dna, _>::dispatch());
        for (nm, arm) in arms() { chkf!(nm, Pipeline::<Dna, Dispatch>::with_backend(arm)); }
        n += 1;
        if let Ok((m, am)) = catch_unwind(AssertUnwindSafe(|| (sc.max(), sc.argmax()))) {
            if nrows > 0 { if m != Some(best) { fails.push(fail("scores_max", format!("StripedScores::max = {:?}, largest cell {}", m, best), case.clone())); }
                if let Some(off) = am { let (r, c) = (off % nrows, off / nrows); if c >= 32 || rows[r][c] != best { fails.push(fail("scores_argmax", format!("StripedScores::argmax offset {} does not designate the maximum", off), case.clone())); } } }
        } else { fails.push(fail("scores_max", format!("panic at {}", panic_loc()), case.clone())); }
        // ... also exactly AT the maximum (the set of maximal cells), for the method and for every pipeline
        if nrows > 0 {
            n += 1;
            let want_max: Vec<usize> = { let mut v = Vec::new(); for (i, r) in rows.iter().enumerate() { for j in 0..32 { if r[j] >= best { v.push(j * nrows + i); } } } v.sort(); v };
            match catch_unwind(AssertUnwindSafe(|| sc.threshold(best))) { Ok(mut o) => { o.sort(); if o != want_max { fails.push(fail("scores_threshold", format!("StripedScores::threshold(max) returns {} offsets, expected {}", o.len(), want_max.len()), case.clone())); } } Err(_) => fails.push(fail("scores_threshold", format!("panic at {}", panic_loc()), case.clone())) }
        }
        // StripedScores::threshold: offsets col*rows+row of exactly the cells >= t (each once, any order)
        n += 1;
        match catch_unwind(AssertUnwindSafe(|| sc.threshold(t))) {
            Ok(mut offs) => { offs.sort(); let mut want: Vec<usize> = want_thr.iter().map(|(r, c)| c * nrows + r).collect(); want.sort(); if offs != want { fails.push(fail("scores_threshold", format!("StripedScores::threshold returns {} offsets, expected {}", offs.len(), want.len()), case.clone())); } }
            Err(_) => fails.push(fail("scores_threshold", format!("panic at {}", panic_loc()), case.clone())),
        }
        // u8
        let hi = rep % 2 == 1;
        let mut rows8: Vec<Vec<u8>> = (0..nrows).map(|_| (0..32).map(|_| if hi { rng.below(256) as u8 } else { rng.below(120) as u8 }).collect()).collect();
        if nrows > 0 && rep % 3 == 0 { let (r, c) = (rng.below(nrows), rep % 32); rows8[r][c] = 255; }
        let sc8 = scores_from(&rows8);
        let best8 = rows8.iter().flatten().cloned().max();
        let t8 = rng.below(256) as u8;
        let mut want8: Vec<(usize, usize)> = Vec::new();
        for (i, r) in rows8.iter().enumerate() { for j in 0..32 { if r[j] >= t8 { want8.push((i, j)); } } }
        let case8 = format!("u8 rows={} hi={} best={:?} peak_col={}", nrows, hi, best8, rep % 32);
        macro_rules! chk8 { ($name:expr, $p:expr) => {{ n += 1; let p = $p;
            match catch_unwind(AssertUnwindSafe(|| (Maximum::<u8, U32>::max(&p, &sc8), Maximum::<u8, U32>::argmax(&p, &sc8), Threshold::<u8, U32>::threshold(&p, &sc8, t8)))) {
                Err(_) => fails.push(fail("pli_max", format!("{}: panic at {}", $name, panic_loc()), case8.clone())),
                Ok((m, am, th)) => {
                    if m != best8 { fails.push(fail("pli_max", format!("{}: u8 max = {:?}, largest cell is {:?}", $name, m, best8), case8.clone())); }
                    match (am, best8) { (None, None) => {}, (Some(mc), Some(b)) => if mc.row >= nrows || mc.col >= 32 || rows8[mc.row][mc.col] != b { fails.push(fail("pli_argmax", format!("{}: u8 argmax ({},{}) holds {} not the maximum {}", $name, mc.row, mc.col, if mc.row < nrows && mc.col < 32 { rows8[mc.row][mc.col] as i32 } else { -1 }, b), case8.clone())); }, _ => fails.push(fail("pli_argmax", format!("{}: u8 argmax None/Some mismatch", $name), case8.clone())) }
                    let mut got: Vec<(usize, usize)> = th.iter().map(|c| (c.row, c.col)).collect(); got.sort();
                    if got != want8 { fails.push(fail("pli_threshold", format!("{}: u8 threshold set differs", $name), case8.clone())); }
                } } }}; }
        chk8!("generic", Pipeline::<Dna, _>::generic());
        chk8!("sse2", Pipeline::<Dna, _>::sse2().unwrap());
        if let Ok(p) = Pipeline::<Dna, _>::avx2() { chk8!("avx2", p); }
        chk8!("dispatch", Pipeline::<Dna, _>::dispatch());
        for (nm, arm) in arms() { chk8!(nm, Pipeline::<Dna, Dispatch>::with_backend(arm)); }
        if fails.len() > 6 { return (n, fails); }
    } }
    // the SSE2 pipeline is implemented for every multiple of 16 columns: 48 and 64 columns, a unique maximum planted in every column
    {
        use lightmotif::num::{U48, U64};
        macro_rules! wide { ($c:ty, $cols:expr) => {{ for col in 0..$cols { for nrows in [1usize, 3] {
            let mut sc = StripedScores::<f32, $c>::empty(); sc.resize(nrows, nrows * $cols);
            for r in 0..nrows { for j in 0..$cols { sc.matrix_mut()[r][j] = -((r * 7 + j) as f32) - 1.0; } }
            let pr = col % nrows; sc.matrix_mut()[pr][col] = 5.0;
            n += 1;
            let case = format!("f32 {} columns, {} rows, maximum planted at ({},{})", $cols, nrows, pr, col);
            match catch_unwind(AssertUnwindSafe(|| { let p = Pipeline::<Dna, _>::sse2().unwrap(); (Maximum::<f32, $c>::max(&p, &sc), Maximum::<f32, $c>::argmax(&p, &sc)) })) {
                Ok((m, am)) => { if m != Some(5.0) || am.map(|c| (c.row, c.col)) != Some((pr, col)) { fails.push(fail("pli_argmax", format!("sse2: max {:?} argmax {:?}", m, am.map(|c| (c.row, c.col))), case)); } }
                Err(_) => fails.push(fail("pli_argmax", format!("sse2: panic at {}", panic_loc()), case)),
            }
            if fails.len() > 6 { return (n, fails); }
        } } }}; }
        wide!(U48, 48); wide!(U64, 64);
    }
    // "when the wildcard column is -inf, float cells past the last valid position hold -inf, so the float maximum is the best valid
    // position's score": also for sequences produced by StripedSequence::sample (their padding cells must be wildcards too)
    {
        use rand::SeedableRng;
        for (k, l) in [33usize, 40, 70, 100, 1000].iter().enumerate() {
            let l = *l; let m = 3 + k;
            let (cells, pssm) = rand_pssm::<Dna>(&mut rng, m, true);
            let mut st = StripedSequence::<Dna, U32>::sample(rand::rngs::StdRng::seed_from_u64(seed + k as u64), Background::<Dna>::uniform(), l);
            let lin: Vec<Nucleotide> = (0..l).map(|p| st[p]).collect();
            st.configure(&pssm);
            let best = (0..=l - m).map(|i| naive_score(&cells, &lin, i)).fold(f32::NEG_INFINITY, f32::max);
            let case = format!("sampled sequence L={} M={}", l, m);
            n += 1;
            let pad_ok = { let r = (l + 31) / 32; (l..r * 32).all(|p| st.matrix()[p % r][p / r] == Nucleotide::N) };
            if !pad_ok { fails.push(fail("seq_sample", "StripedSequence::sample leaves symbols other than the wildcard in the padding cells".into(), case.clone())); }
            match catch_unwind(AssertUnwindSafe(|| { let sc = Pipeline::<Dna, _>::dispatch().score(&pssm, &st); let r = sc.matrix().rows(); let finite_tail = (l + 1 - m..r * 32).filter(|p| sc.matrix()[p % r][p / r] != f32::NEG_INFINITY).count(); (sc.max(), Maximum::<f32, U32>::max(&Pipeline::<Dna, _>::generic(), &sc), finite_tail) })) {
                Ok((a, b, finite_tail)) => { if finite_tail > 0 { fails.push(fail("pli_score_padding", format!("{} float cells past the last valid position are not -inf although the wildcard column is -inf", finite_tail), case.clone())); }
                    if a != Some(best) || b != Some(best) { fails.push(fail("pli_max", format!("float maximum over the score matrix = {:?} / {:?}, best valid position scores {}", a, b, best), case.clone())); } }
                Err(_) => fails.push(fail("pli_max", format!("panic at {}", panic_loc()), case.clone())),
            }
        }
    }
    // tall 8-bit matrices (more than 2^15 rows: over a million positions scored in one call): the arg-maximum sits in the last row
    for nrows in [32767usize, 32768, 32769, 50000, 65536] {
        let mut rows8: Vec<Vec<u8>> = (0..nrows).map(|i| (0..32).map(|j| ((i * 7 + j * 13) % 200) as u8).collect()).collect();
        let col = nrows % 32;
        rows8[100][5] = 220; rows8[nrows - 1][col] = 231;
        let sc8 = scores_from(&rows8);
        let case8 = format!("u8 rows={} maximum 231 at ({},{})", nrows, nrows - 1, col);
        macro_rules! chkt { ($name:expr, $p:expr) => {{ n += 1; let p = $p;
            match catch_unwind(AssertUnwindSafe(|| (Maximum::<u8, U32>::max(&p, &sc8), Maximum::<u8, U32>::argmax(&p, &sc8)))) {
                Err(_) => fails.push(fail("pli_max", format!("{}: panic at {}", $name, panic_loc()), case8.clone())),
                Ok((m, am)) => {
                    if m != Some(231) { fails.push(fail("pli_max", format!("{}: u8 max = {:?}, largest cell is 231", $name, m), case8.clone())); }
                    match am { Some(mc) if mc.row < nrows && mc.col < 32 && rows8[mc.row][mc.col] == 231 => {}, other => fails.push(fail("pli_argmax", format!("{}: u8 argmax {:?} does not hold the maximum 231", $name, other.map(|c| (c.row, c.col))), case8.clone())) }
                } } }}; }
        chkt!("generic", Pipeline::<Dna, _>::generic());
        if let Ok(p) = Pipeline::<Dna, _>::avx2() { chkt!("avx2", p); }
        chkt!("dispatch", Pipeline::<Dna, _>::dispatch());
        if fails.len() > 6 { return (n, fails); }
    }
    (n, fails)
}

// ---------------------------------------------------------------- C08 -------------------------------------------------
/// real motifs built through the library's own conversions (counts -> freq -> scoring), plus hand-made matrices
fn motif_from_sites(rng: &mut Rng, m: usize, nsites: usize) -> ScoringMatrix<Dna> {
    let sites: Vec<EncodedSequence<Dna>> = (0..nsites).map(|_| EncodedSequence::new(rand_syms::<Dna>(rng, m, false))).collect();
    CountMatrix::<Dna>::from_sequences(sites).unwrap().to_freq(0.1).to_scoring(None)
}
pub fn sweep_c08(tier: &str, seed: u64) -> (usize, Vec<String>) {
    let mut rng = Rng::new(seed ^ 0xc08);
    let mut fails = Vec::new(); let mut n = 0;
    let reps = if tier == "thorough" { 60 } else { 12 };
    for rep in 0..reps {
        let m = 1 + rng.below(if rep % 3 == 0 { 30 } else { 8 });
        let nsites = 2 + rng.below(6);
        // rep % 4: 0 motif from sites (N = -inf), wildcards in the sequence; 1 and 3 finite wildcard column, wildcards in the
        // sequence; 2 N = -inf, no wildcard
        let pssm = if rep % 4 == 0 { motif_from_sites(&mut rng, m, nsites) } else { rand_pssm::<Dna>(&mut rng, m, rep % 4 == 2).1 };
        let dm = pssm.to_discrete();
        let l = m + rng.below(200);
        // the sequence contains the consensus (maximum-scoring) word and wildcards
        let mut s = rand_syms::<Dna>(&mut rng, l, rep % 4 != 2);
        if l >= 2 * m { for j in 0..m { let best = (0..4).max_by(|a, b| pssm.matrix()[j][*a].partial_cmp(&pssm.matrix()[j][*b]).unwrap()).unwrap(); s[m / 2 + j] = Dna::symbols()[best]; } }
        let mut st: StripedSequence<Dna, U32> = Pipeline::<Dna, _>::generic().stripe(&s[..]);
        st.configure(&pssm);
        let case = format!("M={} L={} seq={}", m, l, text::<Dna>(&s[..s.len().min(70)]));
        // reference: saturated byte sums, and the byte image of the exact score
        let dcell = |j: usize, k: usize| dm.matrix()[j][k] as u32;
        let want: Vec<u8> = (0..=l - m).map(|i| (0..m).map(|j| dcell(j, s[i + j].as_index())).sum::<u32>().min(255) as u8).collect();
        for (name, which) in [("avx2", 0), ("dispatch", 1), ("generic", 2), ("dispatch[generic]", 3), ("dispatch[sse2]", 4), ("dispatch[avx2]", 5)] {
            if which == 0 && Pipeline::<Dna, lightmotif::pli::platform::Avx2>::avx2().is_err() { continue; }
            n += 1;
            let r = catch_unwind(AssertUnwindSafe(|| -> Vec<u8> { match which {
                0 => Pipeline::<Dna, _>::avx2().unwrap().score(&dm, &st).unstripe().to_vec(),
                1 => Pipeline::<Dna, _>::dispatch().score(&dm, &st).unstripe().to_vec(),
                2 => Pipeline::<Dna, _>::generic().score(&dm, &st).unstripe().to_vec(),
                3 => Pipeline::<Dna, Dispatch>::with_backend(Dispatch::Generic).score(&dm, &st).unstripe().to_vec(),
                4 => Pipeline::<Dna, Dispatch>::with_backend(Dispatch::Sse2).score(&dm, &st).unstripe().to_vec(),
                _ => Pipeline::<Dna, Dispatch>::with_backend(Dispatch::Avx2).score(&dm, &st).unstripe().to_vec(),
            } }));
            match r {
                Err(_) => {
                    // D5 signature: the generic kernel uses a plain `+=` on u8; it overflows exactly when some window's
                    // byte sum exceeds 255. Anything else (a panic although no sum exceeds 255, or on another backend) is new.
                    let over = (0..=l - m).any(|i| (0..m).map(|j| dcell(j, s[i + j].as_index())).sum::<u32>() > 255);
                    // arms 2, 3, 4 all run the generic (non-saturating) u8 kernel
                    let unit = if (which == 2 || which == 3 || which == 4) && over { "pli_score_u8_generic_overflow" } else { "pli_score_u8" };
                    fails.push(fail(unit, format!("{}: panic at {} (u8 window sum > 255: {})", name, panic_loc(), over), case.clone()))
                }
                Ok(v) => {
                    if v.len() != want.len() { fails.push(fail("pli_score_u8", format!("{}: {} values expected {}", name, v.len(), want.len()), case.clone())); continue; }
                    for i in 0..v.len() {
                        if v[i] != want[i] { fails.push(fail("pli_score_u8", format!("{}: position {} byte score {} expected saturated sum {}", name, i, v[i], want[i]), case.clone())); break; }
                        // C08 proper: the byte score reaches the byte image of the real score (windows with finite real score)
                        let real = pssm.score_position(&st, i);
                        if real.is_finite() && v[i] < dm.scale(real) { fails.push(fail("pwm_to_discrete", format!("{}: position {} byte score {} < scale(real score {}) = {}", name, i, v[i], real, dm.scale(real)), case.clone())); break; }
                    }
                }
            }
        }
        // row sub-ranges (what the scanner does block by block): cells of rows [a, b) through avx2 and dispatch
        let rows_n = st.matrix().rows() - st.wrap();
        if rows_n > 1 && l >= m {
            let a = 1 + rng.below(rows_n - 1); let b = a + 1 + rng.below(rows_n - a);
            for which in 0..2 {
                if which == 0 && Pipeline::<Dna, lightmotif::pli::platform::Avx2>::avx2().is_err() { continue; }
                n += 1;
                let r = catch_unwind(AssertUnwindSafe(|| { let mut sc = StripedScores::<u8, U32>::empty(); sc.resize(rows_n + 3, 7);
                    if which == 0 { Pipeline::<Dna, _>::avx2().unwrap().score_rows_into(&dm, &st, a..b, &mut sc); } else { Pipeline::<Dna, _>::dispatch().score_rows_into(&dm, &st, a..b, &mut sc); }
                    (sc.matrix().rows(), (0..(b - a).min(sc.matrix().rows())).map(|r| sc.matrix()[r].to_vec()).collect::<Vec<_>>()) }));
                match r {
                    Err(_) => fails.push(fail("pli_score_u8", format!("rows {}..{}: panic at {}", a, b, panic_loc()), case.clone())),
                    Ok((nr, mat)) => { if nr != b - a { fails.push(fail("pli_score_u8", format!("rows {}..{}: score matrix has {} rows", a, b, nr), case.clone())); }
                        for (r, row) in mat.iter().enumerate() { for c in 0..32 { let p = c * rows_n + a + r; if p < want.len() && row[c] != want[p] { fails.push(fail("pli_score_u8", format!("rows {}..{}: cell ({},{}) = {} expected {}", a, b, r, c, row[c], want[p]), case.clone())); } } } }
                }
            }
        }
        if fails.iter().filter(|f| !f.contains("pli_score_u8_generic_overflow")).count() > 4 { break; }
    }
    (n, fails)
}

// ---------------------------------------------------------------- C09 / C10 -------------------------------------------
pub fn sweep_c09(tier: &str, seed: u64) -> (usize, Vec<String>) {
    let mut rng = Rng::new(seed ^ 0xc09);
    let mut fails = Vec::new(); let mut n = 0;
    let reps = if tier == "thorough" { 300 } else { 60 };
    // every tuple of 1..4 sequence lengths in 0..=3 (incl. leading / interleaved EMPTY sequences): accepted iff all lengths are equal
    for ns in 1..=4usize {
        for code in 0..4usize.pow(ns as u32) {
            let lens: Vec<usize> = (0..ns).map(|i| (code / 4usize.pow(i as u32)) % 4).collect();
            let sites: Vec<Vec<Nucleotide>> = lens.iter().map(|&l| rand_syms::<Dna>(&mut rng, l, false)).collect();
            n += 1;
            let r = catch_unwind(AssertUnwindSafe(|| CountMatrix::<Dna>::from_sequences(sites.iter().map(|s| EncodedSequence::<Dna>::new(s.clone()))).map(|cm| (cm.matrix().rows(), cm.sequence_count()))));
            let equal = lens.iter().all(|&l| l == lens[0]);
            let case = format!("lengths={:?}", lens);
            match r {
                Err(_) => fails.push(fail("pwm_count_from_sequences", format!("panic at {}", panic_loc()), case)),
                Ok(Ok((rows, cnt))) => { if !equal { fails.push(fail("pwm_count_from_sequences", "unequal lengths accepted".into(), case)); } else if rows != lens[0] || cnt != ns { fails.push(fail("pwm_count_from_sequences", format!("{} rows / {} sequences reported", rows, cnt), case)); } }
                Ok(Err(_)) => { if equal { fails.push(fail("pwm_count_from_sequences", "equal lengths rejected".into(), case)); } }
            }
            if fails.len() > 2 { break; }
        }
    }
    for rep in 0..reps {
        let m = 1 + rng.below(8); let ns = 1 + rng.below(7);
        let wild = rep % 3 == 0;
        let sites: Vec<Vec<Nucleotide>> = (0..ns).map(|_| rand_syms::<Dna>(&mut rng, m, wild)).collect();
        let case = format!("sites={:?}", sites.iter().map(|s| text::<Dna>(s)).collect::<Vec<_>>());
        n += 1;
        let r = catch_unwind(AssertUnwindSafe(|| -> Vec<String> {
            let mut f = Vec::new();
            let cm = CountMatrix::<Dna>::from_sequences(sites.iter().map(|s| EncodedSequence::<Dna>::new(s.clone()))).unwrap();
            for i in 0..m { for k in 0..5 { let want = sites.iter().filter(|s| s[i].as_index() == k).count() as u32; if cm.matrix()[i][k] != want { f.push(fail("pwm_count_from_sequences", format!("count[{}][{}] = {} expected {}", i, k, cm.matrix()[i][k], want), case.clone())); } } }
            // unequal lengths are rejected
            let mut bad = sites.clone(); bad.push(rand_syms::<Dna>(&mut Rng::new(rep as u64), m + 1, false));
            if CountMatrix::<Dna>::from_sequences(bad.iter().map(|s| EncodedSequence::<Dna>::new(s.clone()))).is_ok() { f.push(fail("pwm_count_from_sequences", "unequal lengths accepted".into(), case.clone())); }
            // frequencies: (count + pseudo) / row total, rows sum to one
            let pseudo = [0.0f32, 0.1, 0.25, 1.0][rep % 4];
            let fm = cm.to_freq(pseudo);
            for i in 0..m {
                let tot: f32 = (0..5).map(|k| cm.matrix()[i][k] as f32 + if k < 4 { pseudo } else { 0.0 }).sum();
                let mut rs = 0.0f32;
                for k in 0..5 { let want = (cm.matrix()[i][k] as f32 + if k < 4 { pseudo } else { 0.0 }) / tot; rs += fm.matrix()[i][k]; if (fm.matrix()[i][k] - want).abs() > 1e-6 { f.push(fail("pwm_to_freq", format!("freq[{}][{}] = {} expected {}", i, k, fm.matrix()[i][k], want), case.clone())); } }
                if (rs - 1.0).abs() > 1e-4 { f.push(fail("pwm_to_freq", format!("frequency row {} sums to {}", i, rs), case.clone())); }
            }
            // weights / scores, one-step and two-step, several bases
            let bg = Background::<Dna>::uniform();
            let wm = fm.to_weight(bg.clone());
            let sm1 = fm.to_scoring(bg.clone());
            let sm2 = wm.to_scoring();
            for i in 0..m { for k in 0..5 {
                let b = bg.frequencies()[k];
                let wantw = if b == 0.0 { 0.0 } else { fm.matrix()[i][k] / b };
                if (wm.matrix()[i][k] - wantw).abs() > 1e-5 { f.push(fail("pwm_to_weight", format!("weight[{}][{}] = {} expected {}", i, k, wm.matrix()[i][k], wantw), case.clone())); }
                let wants = if b == 0.0 { f32::NEG_INFINITY } else { wantw.log2() };
                for (nm, s) in [("one-step", &sm1), ("two-step", &sm2)] { let g = s.matrix()[i][k]; if !(g == wants || (g - wants).abs() < 1e-4) { f.push(fail("pwm_to_scoring", format!("{} score[{}][{}] = {} expected {}", nm, i, k, g, wants), case.clone())); } }
            } }
            for base in [2.0f32, 10.0, 2.718281828, 3.0] {
                let sb = wm.to_scoring_with_base(base);
                for i in 0..m { for k in 0..4 { let want = (wm.matrix()[i][k] as f64).ln() / (base as f64).ln(); let g = sb.matrix()[i][k] as f64; if (g - want).abs() > 1e-4 * (1.0 + want.abs()) { f.push(fail("pwm_to_scoring_with_base", format!("base {} score[{}][{}] = {} expected {}", base, i, k, g, want), case.clone())); } } }
            }
            // non-uniform backgrounds, incl. a zero among the regular symbols and weight on the wildcard
            for bgv in [[0.5f32, 0.5, 0.0, 0.0, 0.0], [0.125, 0.375, 0.125, 0.375, 0.0], [0.25, 0.25, 0.25, 0.125, 0.125]] {
                let b = Background::<Dna>::new(bgv).unwrap();
                let (w2, s2) = (fm.to_weight(b.clone()), fm.to_scoring(b.clone()));
                for i in 0..m { for k in 0..5 {
                    let wantw = if bgv[k] == 0.0 { 0.0 } else { fm.matrix()[i][k] / bgv[k] };
                    if !feq(w2.matrix()[i][k], wantw) { f.push(fail("pwm_to_weight", format!("background {:?}: weight[{}][{}] = {} expected {}", bgv, i, k, w2.matrix()[i][k], wantw), case.clone())); }
                    let wants = if bgv[k] == 0.0 { f32::NEG_INFINITY } else { wantw.log2() };
                    let g = s2.matrix()[i][k];
                    if !(g == wants || (g - wants).abs() < 1e-4) { f.push(fail("pwm_to_scoring", format!("background {:?}: score[{}][{}] = {} expected {}", bgv, i, k, g, wants), case.clone())); }
                } }
                // rescaling the uniform-background weights to this background gives frequency / new background again (up to rounding),
                // in every column where both backgrounds are non-zero, and records the new background
                let resc = wm.rescale(b.clone());
                if resc.background().frequencies() != &bgv[..] { f.push(fail("pwm_weight_rescale", format!("rescale to {:?} does not record the new background", bgv), case.clone())); }
                for i in 0..m { for k in 0..4 { if bgv[k] != 0.0 { let want = fm.matrix()[i][k] / bgv[k]; let g = resc.matrix()[i][k]; if !((g - want).abs() <= 1e-4 * (1.0 + want.abs())) { f.push(fail("pwm_weight_rescale", format!("rescale to {:?}: weight[{}][{}] = {} expected {}", bgv, i, k, g, want), case.clone())); } } } }
                let same = wm.rescale(bg.clone());
                if same.matrix() != wm.matrix() || same.background().frequencies() != bg.frequencies() { f.push(fail("pwm_weight_rescale", "rescaling to the same background changes the matrix".into(), case.clone())); }
                if w2.background().frequencies() != &bgv[..] || s2.background().frequencies() != &bgv[..] { f.push(fail("pwm_to_weight", "the matrix does not carry the background it was built with".into(), case.clone())); }
                // "every window without wildcard scores between the reported minimum and maximum": also windows made of symbols whose background is
                // zero (their cells are -inf, so the reported minimum must be -inf too)
                let (lo2, hi2) = (s2.min_score(), s2.max_score());
                let mut wins: Vec<Vec<Nucleotide>> = (0..4).map(|k| vec![Dna::symbols()[k]; m]).collect();
                for t in 0..4 { wins.push(rand_syms::<Dna>(&mut Rng::new(rep as u64 * 13 + t), m, false)); }
                for w_ in &wins { let sc: f32 = (0..m).map(|j| s2.matrix()[j][w_[j].as_index()]).sum(); if !(sc >= lo2 - 1e-3 && sc <= hi2 + 1e-3) { f.push(fail("pwm_min_max_score", format!("background {:?}: window {} scores {} outside [{}, {}]", bgv, text::<Dna>(w_), sc, lo2, hi2), case.clone())); break; } }
            }
            // per-symbol pseudocounts (incl. weight on the wildcard)
            {
                let pv = [0.5f32, 0.25, 0.0, 1.0, 0.125];
                let mut pc = Pseudocounts::<Dna>::from(0.0f32); pc.as_mut().copy_from_slice(&pv);
                let fm2 = cm.to_freq(pc);
                for i in 0..m { let tot: f32 = (0..5).map(|k| cm.matrix()[i][k] as f32 + pv[k]).sum(); for k in 0..5 { let want = (cm.matrix()[i][k] as f32 + pv[k]) / tot; if (fm2.matrix()[i][k] - want).abs() > 1e-6 { f.push(fail("pwm_to_freq", format!("pseudocount vector: freq[{}][{}] = {} expected {}", i, k, fm2.matrix()[i][k], want), case.clone())); } } }
            }
            // count matrices built from raw tables (CountMatrix::new accepts unequal row totals): each row is normalised by ITS OWN total
            {
                let mut raw = DenseMatrix::<u32, <Dna as Alphabet>::K>::new(m);
                let mut r2 = Rng::new(rep as u64 * 31 + 5);
                for i in 0..m { for k in 0..5 { raw[i][k] = if k == 4 && rep % 2 == 0 { 0 } else { r2.below(9) as u32 + if k == 0 { 1 } else { 0 } }; } }
                // a position nobody counted (an all-zero row; with no pseudocount its frequencies are 0/0): the OTHER rows are unaffected
                if rep % 4 == 1 && m >= 2 { let z = rep % m; for k in 0..5 { raw[z][k] = 0; } }
                if let Ok(cm2) = CountMatrix::<Dna>::new(raw.clone()) {
                    for pseudo2 in [0.0f32, 0.5] {
                        // C10: reverse complement commutes with counts -> frequencies on raw tables too (NaN cells compare equal to NaN cells)
                        let (a, b) = (cm2.to_freq(pseudo2).reverse_complement(), cm2.reverse_complement().to_freq(pseudo2));
                        'cmp: for i in 0..m { for k in 0..5 { let (x, y) = (a.matrix()[i][k], b.matrix()[i][k]); if !(feq(x, y) || (x - y).abs() < 1e-6) { f.push(fail("pwm_freq_rc", format!("raw table {:?} pseudo {}: rc(to_freq)[{}][{}] = {} but to_freq(rc) = {}", (0..m).map(|i| raw[i].to_vec()).collect::<Vec<_>>(), pseudo2, i, k, x, y), case.clone())); break 'cmp; } } }
                    }
                    for pseudo2 in [0.0f32, 0.5] {
                        let fm3 = cm2.to_freq(pseudo2);
                        for i in 0..m { let tot: f32 = (0..5).map(|k| raw[i][k] as f32 + if k < 4 { pseudo2 } else { 0.0 }).sum(); for k in 0..5 { let want = (raw[i][k] as f32 + if k < 4 { pseudo2 } else { 0.0 }) / tot; if (fm3.matrix()[i][k] - want).abs() > 1e-6 { f.push(fail("pwm_to_freq", format!("raw table {:?} pseudo {}: freq[{}][{}] = {} expected {}", (0..m).map(|i| raw[i].to_vec()).collect::<Vec<_>>(), pseudo2, i, k, fm3.matrix()[i][k], want), case.clone())); } } }
                    }
                }
            }
            // backgrounds from counts / sequences: normalised symbol counts, with or without the wildcard
            for unknown in [false, true] {
                let encs: Vec<EncodedSequence<Dna>> = sites.iter().map(|s| EncodedSequence::<Dna>::new(s.clone())).collect();
                let mut cnt = [0usize; 5];
                for s_ in &sites { for x in s_ { if unknown || x.as_index() != 4 { cnt[x.as_index()] += 1; } } }
                let tot: usize = cnt.iter().sum();
                let got = Background::<Dna>::from_sequences(sites.iter().map(|e| &e[..]), unknown);
                match got {
                    Ok(b) => { if tot == 0 { f.push(fail("abc_background_from_sequences", "background built from no counted symbol".into(), case.clone())); } else { for k in 0..5 { if (b.frequencies()[k] - cnt[k] as f32 / tot as f32).abs() > 1e-6 { f.push(fail("abc_background_from_sequences", format!("unknown={}: frequency[{}] = {} expected {}/{}", unknown, k, b.frequencies()[k], cnt[k], tot), case.clone())); } } } }
                    Err(_) => { if tot != 0 { f.push(fail("abc_background_from_sequences", "rejected although symbols were counted".into(), case.clone())); } }
                }
                let mut c1 = [0usize; 5]; for x in &sites[0] { if unknown || x.as_index() != 4 { c1[x.as_index()] += 1; } }
                let t1: usize = c1.iter().sum();
                if let Ok(b) = Background::<Dna>::from_sequence(&sites[0][..], unknown) { for k in 0..5 { if t1 == 0 || (b.frequencies()[k] - c1[k] as f32 / t1 as f32).abs() > 1e-6 { f.push(fail("abc_background_from_sequence", format!("unknown={}: frequency[{}] wrong", unknown, k), case.clone())); } } } else if t1 != 0 { f.push(fail("abc_background_from_sequence", "rejected although symbols were counted".into(), case.clone())); }
            }
            // frequency matrices are validated: rows must sum to one
            {
                let ok = FrequencyMatrix::<Dna>::new(fm.matrix().clone()).is_ok();
                let mut bad = fm.matrix().clone(); bad[m - 1][0] += 0.5;
                if !ok || FrequencyMatrix::<Dna>::new(bad).is_ok() { f.push(fail("pwm_freq_new", "row-sum validation wrong".into(), case.clone())); }
                for (what, v) in [("NaN", f32::NAN), ("+inf", f32::INFINITY)] {
                    let mut nn = fm.matrix().clone(); nn[rep % m][rep % 5] = v; if what == "+inf" { nn[rep % m][(rep + 1) % 5] = f32::NEG_INFINITY; }
                    if FrequencyMatrix::<Dna>::new(nn).is_ok() { f.push(fail("pwm_freq_new", format!("a row whose sum is not a number ({}) was accepted", what), case.clone())); }
                }
            }
            // min/max score bound every wildcard-free window
            let (lo, hi) = (sm1.min_score(), sm1.max_score());
            let w = rand_syms::<Dna>(&mut Rng::new(rep as u64 + 7), m, false);
            let sc: f32 = (0..m).map(|j| sm1.matrix()[j][w[j].as_index()]).sum();
            if sc < lo - 1e-3 || sc > hi + 1e-3 { f.push(fail("pwm_min_max_score", format!("window score {} outside [{}, {}]", sc, lo, hi), case.clone())); }
            // invalid backgrounds are rejected - also a negative entry AFTER enough positive mass (the running sum stays inside [0,1], the
            // total is exactly one), an entry above one compensated later, and NaN; entries are multiples of 1/16 so every sum is exact
            for v in [[0.5f32, -0.25, 0.5, 0.25, 0.0], [0.75, 0.5, -0.25, 0.0, 0.0], [0.25, 0.25, 0.25, 0.5, -0.25], [1.25, -0.25, 0.0, 0.0, 0.0], [0.5, 0.5, 0.0, -0.0625, 0.0625], [0.5, f32::NAN, 0.25, 0.25, 0.0]] {
                if Background::<Dna>::new(v).is_ok() { f.push(fail("abc_background_new", format!("background {:?} with an entry outside [0,1] accepted", v), case.clone())); }
            }
            for v in [[0.5f32, 0.25, 0.125, 0.125, 0.0], [0.0, 0.0, 0.0, 1.0, 0.0], [0.0625, 0.0625, 0.0625, 0.0625, 0.75]] {
                match Background::<Dna>::new(v) { Ok(b) => if b.frequencies() != &v[..] { f.push(fail("abc_background_new", format!("background {:?} stored as {:?}", v, b.frequencies()), case.clone())); }, Err(_) => f.push(fail("abc_background_new", format!("valid background {:?} rejected", v), case.clone())) }
            }
            // invalid backgrounds are rejected
            if Background::<Dna>::new([0.3, 0.3, 0.3, 0.3, 0.0]).is_ok() || Background::<Dna>::new([1.5, -0.5, 0.0, 0.0, 0.0]).is_ok() || Background::<Dna>::new([0.25, 0.25, 0.25, 0.25, 0.0]).is_err() { f.push(fail("abc_background_new", "background validation wrong".into(), case.clone())); }
            // ---- C10 on the same matrices
            let rc = cm.reverse_complement();
            let comp = [2usize, 3, 0, 1, 4];
            for i in 0..m { for k in 0..5 { if rc.matrix()[i][k] != cm.matrix()[m - 1 - i][comp[k]] { f.push(fail("pwm_count_rc", format!("count rc[{}][{}] wrong", i, k), case.clone())); } } }
            if rc.reverse_complement() != cm { f.push(fail("pwm_count_rc", "rc(rc(counts)) != counts".into(), case.clone())); }
            let bgn = Background::<Dna>::new([0.2, 0.2, 0.2, 0.2, 0.2]).unwrap();
            let smn = fm.to_scoring(bgn.clone());
            for (nm, a, b) in [("freq", fm.reverse_complement().matrix().clone(), fm.matrix().clone()), ("weight", wm.reverse_complement().matrix().clone(), wm.matrix().clone()), ("scoring", sm1.reverse_complement().matrix().clone(), sm1.matrix().clone()), ("scoring(N bg)", smn.reverse_complement().matrix().clone(), smn.matrix().clone())] {
                for i in 0..m { for k in 0..5 { let (x, y) = (a[i][k], b[m - 1 - i][comp[k]]); if !feq(x, y) { f.push(fail(if nm == "freq" { "pwm_freq_rc" } else if nm == "weight" { "pwm_weight_rc" } else { "pwm_scoring_rc" }, format!("{} rc[{}][{}] = {} expected {}", nm, i, k, x, y), case.clone())); } } }
            }
            // the reverse complement carries the (strand-symmetric) background it was built with - also one estimated from counts,
            // whose f32 frequencies need not sum to exactly one
            {
                let mut gc = lightmotif::abc::Background::<Dna>::uniform();
                for cv in [[5usize, 1, 5, 1, 0], [3, 4, 3, 4, 0], [7, 2, 7, 2, 0]] {
                    let mut cnts = SymbolCount::<Dna>::count_symbols(&&sites[0][..]); for k in 0..5 { cnts[k] = cv[k]; }
                    if let Ok(b) = Background::<Dna>::from_counts(&cnts) { gc = b; }
                    let (w3, s3) = (fm.to_weight(gc.clone()), fm.to_scoring(gc.clone()));
                    if w3.reverse_complement().background().frequencies() != gc.frequencies() || s3.reverse_complement().background().frequencies() != gc.frequencies() { f.push(fail("pwm_scoring_rc", format!("reverse complement changed the background {:?}", gc.frequencies()), case.clone())); }
                    if w3.reverse_complement().reverse_complement() != w3 { f.push(fail("pwm_weight_rc", "rc(rc(weights)) != weights".into(), case.clone())); }
                    if s3.reverse_complement().reverse_complement() != s3 && !s3.matrix().iter().any(|r| r.iter().any(|x| x.is_nan())) { f.push(fail("pwm_scoring_rc", "rc(rc(scores)) != scores".into(), case.clone())); }
                }
            }
            // commutation counts -> scoring, and the strand identity on a sequence with wildcards
            let via = cm.reverse_complement().to_freq(pseudo).to_scoring(bgn.clone());
            let direct = smn.reverse_complement();
            for i in 0..m { for k in 0..5 { if (via.matrix()[i][k] - direct.matrix()[i][k]).abs() > 1e-4 && !(via.matrix()[i][k] == direct.matrix()[i][k]) { f.push(fail("pwm_scoring_rc", format!("rc does not commute with counts->scoring at [{}][{}]", i, k), case.clone())); } } }
            let l = m + 5;
            let s = rand_syms::<Dna>(&mut Rng::new(rep as u64 + 99), l, true);
            let rcs: Vec<Nucleotide> = s.iter().rev().map(|x| Dna::symbols()[comp[x.as_index()]]).collect();
            // ... and through the library's own single-position scorer, on striped sequences of several rows carrying NO / fewer / exactly the
            // look-ahead rows the motif needs (forward matrix on the sequence, reverse-complement matrix on the reverse-complement sequence)
            {
                let l2 = 40 + rep % 60;
                let s_ = rand_syms::<Dna>(&mut Rng::new(rep as u64 + 199), l2.max(m), true);
                let l2 = s_.len();
                let rcs_: Vec<Nucleotide> = s_.iter().rev().map(|x| Dna::symbols()[comp[x.as_index()]]).collect();
                for hist in 0..3 {
                    let mut fw: StripedSequence<Dna, U32> = Pipeline::<Dna, _>::generic().stripe(&s_[..]);
                    let mut bw: StripedSequence<Dna, U32> = Pipeline::<Dna, _>::generic().stripe(&rcs_[..]);
                    match hist { 1 => { if m > 2 { let w_ = 1 + (rep % (m - 2)); fw.configure_wrap(w_); bw.configure_wrap(w_); } } 2 => { fw.configure(&smn); bw.configure(&direct); } _ => {} }
                    for i in 0..=l2 - m {
                        let (a, b) = (smn.score_position(&fw, i), direct.score_position(&bw, l2 - m - i));
                        let want: f32 = (0..m).map(|j| smn.matrix()[j][s_[i + j].as_index()]).sum();
                        if !((a - b).abs() <= 1e-3 || a == b) || !((a - want).abs() <= 1e-3 || a == want) { f.push(fail("pwm_scoring_rc", format!("score_position (history {}, wrap {}): forward position {} scores {}, its mirror {} on the reverse complement scores {}, definition {}", hist, fw.wrap(), i, a, l2 - m - i, b, want), case.clone())); break; }
                    }
                }
            }
            for i in 0..=l - m { let a: f32 = (0..m).map(|j| smn.matrix()[j][s[i + j].as_index()]).sum(); let b: f32 = (0..m).map(|j| direct.matrix()[j][rcs[l - m - i + j].as_index()]).sum(); if (a - b).abs() > 1e-3 { f.push(fail("pwm_scoring_rc", format!("strand identity broken at position {}: {} vs {}", i, a, b), case.clone())); break; } }
            f
        }));
        match r { Err(_) => fails.push(fail("pwm", format!("panic at {}", panic_loc()), case)), Ok(f) => fails.extend(f) }
        if fails.len() > 4 { break; }
    }
    (n, fails)
}

// ---------------------------------------------------------------- C19 -------------------------------------------------
pub fn sweep_c19(tier: &str, seed: u64) -> (usize, Vec<String>) {
    use lightmotif::num::{U1, U5, U7, U21, U43};
    let mut rng = Rng::new(seed ^ 0xc19);
    let mut fails = Vec::new(); let mut n = 0;
    macro_rules! model { ($t:ty, $c:ty, $mk:expr) => {{
        let cols = <$c as Unsigned>::USIZE;
        let ops = if tier == "thorough" { 400 } else { 80 };
        let mut m = DenseMatrix::<$t, $c>::new(0);
        let mut model: Vec<Vec<$t>> = Vec::new();
        let mut trace = Vec::new();
        for step in 0..ops {
            n += 1;
            let op = rng.below(7);
            let r = catch_unwind(AssertUnwindSafe(|| { match op {
                0 => { let k = rng.below(9); m.resize(k); model.resize(k, vec![<$t>::default(); cols]); trace.push(format!("resize({})", k)); }
                1 => { if !model.is_empty() { let (i, j) = (rng.below(model.len()), rng.below(cols)); let v: $t = $mk(rng.below(200)); if step % 2 == 0 { m[i][j] = v; } else { m[lightmotif::dense::MatrixCoordinates::new(i, j)] = v; } model[i][j] = v; trace.push(format!("write({},{})", i, j)); } }
                2 => { let v: $t = $mk(rng.below(200)); m.fill(v); for r in model.iter_mut() { for x in r.iter_mut() { *x = v; } } trace.push("fill".into()); }
                3 => { let k = rng.below(6); m = DenseMatrix::<$t, $c>::new(k); model = vec![vec![<$t>::default(); cols]; k]; trace.push(format!("new({})", k)); }
                4 => { let c2 = m.clone(); if c2 != m { panic!("clone != original"); } let mut c3 = m.clone(); if !model.is_empty() { let i = rng.below(model.len()); c3[i][0] = $mk(201); if c3 == m && model[i][0] != $mk(201) { panic!("equality ignores a differing cell"); } let mut c4 = m.clone(); c4.resize(model.len() - 1); if c4 == m { panic!("equality ignores the row count (shrunk clone)"); } } let mut c5 = m.clone(); c5.resize(model.len() + 1); if c5 == m { panic!("equality ignores the row count (grown clone)"); }
                       // clone_from / clone_into onto longer, shorter and equally long destinations
                       for extra in [0usize, 1, 3] { let mut c6 = DenseMatrix::<$t, $c>::new(model.len() + extra); c6.fill($mk(77)); c6.clone_from(&m); if c6 != m || c6.rows() != m.rows() || c6.iter().count() != model.len() { panic!("clone_from onto a matrix with {} more rows does not give an equal matrix", extra); } }
                       if model.len() > 1 { let mut c7 = DenseMatrix::<$t, $c>::new(model.len() - 1); c7.clone_from(&m); if c7 != m || c7.rows() != m.rows() { panic!("clone_from onto a shorter matrix does not give an equal matrix"); } }
                       // adaptors that reach nth / nth_back / last on the row iterators
                       if !model.is_empty() {
                           let k = rng.below(model.len());
                           if m.iter().nth(k).map(|r| r.to_vec()) != model.iter().nth(k).cloned() { panic!("iter().nth({}) wrong", k); }
                           if m.iter().rev().nth(k).map(|r| r.to_vec()) != model.iter().rev().nth(k).cloned() { panic!("iter().rev().nth({}) wrong", k); }
                           if m.iter().last().map(|r| r.to_vec()) != model.last().cloned() { panic!("iter().last() wrong"); }
                           let a: Vec<Vec<$t>> = m.iter().rev().step_by(2).map(|r| r.to_vec()).collect(); let b: Vec<Vec<$t>> = model.iter().rev().step_by(2).cloned().collect(); if a != b { panic!("iter().rev().step_by(2) wrong"); }
                           let a: Vec<Vec<$t>> = m.iter().step_by(3).map(|r| r.to_vec()).collect(); let b: Vec<Vec<$t>> = model.iter().step_by(3).cloned().collect(); if a != b { panic!("iter().step_by(3) wrong"); }
                           let mut it = m.iter(); let mut mi = model.iter(); for s_ in 0..model.len() { let (x, y) = if (s_ + k) % 2 == 0 { (it.next(), mi.next()) } else { (it.next_back(), mi.next_back()) }; if x.map(|r| r.to_vec()) != y.cloned() { panic!("mixed next / next_back wrong at step {}", s_); } }
                           let mut c10 = m.clone(); if let Some(row) = c10.iter_mut().rev().nth(k) { row[0] = $mk(9); } if c10[model.len() - 1 - k][0] != $mk(9) { panic!("iter_mut().rev().nth({}) wrote to the wrong row", k); }
                       }
                       // the row iterators are ExactSizeIterator + DoubleEndedIterator: adaptors that rely on an exact size_hint
                       // (skip(n).len(), skip(n).rev(), zip(..).rev(), rposition) must work as on the model
                       {
                           let k = if model.is_empty() { 0 } else { rng.below(model.len() + 1) };
                           if m.iter().skip(k).len() != model.iter().skip(k).len() { panic!("iter().skip({}).len() wrong", k); }
                           let a: Vec<Vec<$t>> = m.iter().skip(k).rev().map(|r| r.to_vec()).collect(); let b: Vec<Vec<$t>> = model.iter().skip(k).rev().cloned().collect(); if a != b { panic!("iter().skip({}).rev() wrong", k); }
                           if m.iter().size_hint() != (model.len(), Some(model.len())) { panic!("iter().size_hint() = {:?} for {} rows", m.iter().size_hint(), model.len()); }
                       }
                       // IntoIterator for &m / &mut m, with_capacity, reserve
                       let mut k = 0; for row in &m { if row != &model[k][..] { panic!("IntoIterator for &DenseMatrix disagrees at row {}", k); } k += 1; } if k != model.len() { panic!("IntoIterator for &DenseMatrix yields {} rows", k); }
                       let mut c8 = m.clone(); let mut k = 0; for row in &mut c8 { row[cols - 1] = $mk(5); k += 1; } if k != model.len() || (0..model.len()).any(|i| c8[i][cols - 1] != $mk(5)) { panic!("IntoIterator for &mut DenseMatrix does not visit every row"); }
                       let wc = DenseMatrix::<$t, $c>::with_capacity(model.len(), model.len() + 3); if wc.rows() != model.len() || wc.capacity() < model.len() + 3 || wc.iter().any(|r| r.iter().any(|x| *x != <$t>::default())) { panic!("with_capacity: wrong rows / capacity / contents"); }
                       let mut c9 = m.clone(); c9.reserve(17); if c9 != m || c9.capacity() < model.len() + 17 { panic!("reserve changed the matrix or did not reserve"); }
                       trace.push("clone/eq".into()); }
                5 => { for (i, row) in m.iter_mut().enumerate() { row[0] = $mk(i % 100); } for (i, r) in model.iter_mut().enumerate() { r[0] = $mk(i % 100); } trace.push("iter_mut".into()); }
                _ => { let rows: Vec<Vec<$t>> = (0..rng.below(5)).map(|_| (0..cols).map(|_| $mk(rng.below(200))).collect()).collect(); m = DenseMatrix::<$t, $c>::from_rows(rows.iter()); model = rows; trace.push("from_rows".into()); }
            } }));
            let case = format!("T={} C={} ops={:?}", stringify!($t), cols, &trace[trace.len().saturating_sub(8)..]);
            if r.is_err() { fails.push(fail("dense", format!("panic at {} ({:?})", panic_loc(), step), case)); break; }
            let bad = m.rows() != model.len() || m.columns() != cols
                || (0..model.len()).any(|i| m[i] != model[i][..])
                || (0..model.len()).any(|i| (0..cols).any(|j| m[lightmotif::dense::MatrixCoordinates::new(i, j)] != model[i][j]))
                || m.iter().count() != model.len() || m.iter().zip(model.iter()).any(|(a, b)| a != &b[..])
                || m.iter().rev().zip(model.iter().rev()).any(|(a, b)| a != &b[..])
                || m.stride() < cols || (m.stride() * std::mem::size_of::<$t>()) % 32 != 0
                || (0..model.len()).any(|i| (m[i].as_ptr() as usize) % 32 != 0);
            if bad { fails.push(fail(if trace.last().map(|t| t.starts_with("resize")).unwrap_or(false) { "dense_resize" } else { "dense" }, "matrix disagrees with the Vec<Vec<T>> model (rows / cells / iteration order / alignment / stride)".into(), case)); break; }
        }
    }}; }
    model!(u8, U1, |x: usize| x as u8); model!(u8, U32, |x: usize| x as u8); model!(u8, U43, |x: usize| x as u8);
    model!(u32, U5, |x: usize| x as u32); model!(u32, U21, |x: usize| x as u32); model!(f32, U7, |x: usize| x as f32); model!(f32, U16, |x: usize| x as f32);
    model!(i64, U5, |x: usize| x as i64); model!(i64, U32, |x: usize| x as i64);
    // element types whose default is NOT the all-zero bit pattern (the symbol types the striped sequences store: N = 4, X = 20)
    model!(Nucleotide, U5, |x: usize| Dna::symbols()[x % 5]); model!(Nucleotide, U32, |x: usize| Dna::symbols()[x % 5]);
    model!(lightmotif::abc::AminoAcid, U21, |x: usize| lightmotif::abc::Protein::symbols()[x % 21]);
    (n, fails)
}

// ---------------------------------------------------------------- C16 -------------------------------------------------
pub fn sweep_c16(tier: &str, seed: u64) -> (usize, Vec<String>) {
    use lightmotif::sampler::{SamplerBuilder, SamplerData, SamplerMode};
    use rand::SeedableRng;
    let mut rng = Rng::new(seed ^ 0xc16);
    let mut fails = Vec::new(); let mut n = 0;
    let base_runs = if tier == "thorough" { 40 } else { 8 };
    // ... plus many short runs on sequences barely longer than the motif (L - w + 1 = 2 or 3 possible starts): every start value,
    // in particular the largest one, is drawn often - for the initial alignment too
    let runs = base_runs + if tier == "thorough" { 400 } else { 80 };
    for run in 0..runs {
        let tiny = run >= base_runs;
        let width = 2 + rng.below(6);
        // run 4: a single sequence (the alignment without the held-out sequence is empty); runs 5 / 7: zoops with one / no seed
        let nseq = if run == 4 { 1 } else { 2 + rng.below(8) };
        let nseeds = if run == 5 { 1 } else if run == 7 { 0 } else { 2 };
        let lins: Vec<Vec<Nucleotide>> = (0..nseq).map(|_| { let l = width + 1 + if tiny { rng.below(2) } else { rng.below(60) }; rand_syms::<Dna>(&mut rng, l, run % 3 == 0) }).collect();
        let striped: Vec<StripedSequence<Dna, U32>> = lins.iter().map(|s| {
            let mut st: StripedSequence<Dna, U32> = if run % 4 == 3 {
                // padding cells that are not wildcards (as StripedSequence::sample produces)
                let l = s.len(); let r = (l + 31) / 32; let mut m = DenseMatrix::<Nucleotide, U32>::new(r);
                for row in 0..r { for col in 0..32 { let p = col * r + row; m[row][col] = if p < l { s[p] } else { Dna::symbols()[(p * 5) % 4] }; } }
                StripedSequence::new(m, l).unwrap()
            } else { Pipeline::<Dna, _>::generic().stripe(&s[..]) };
            st.configure_wrap(width); st }).collect();
        let zoops = run % 2 == 1;
        let steps = if tiny { 6 } else if tier == "thorough" { 300 } else { 120 };
        let case = format!("run={} width={} nseq={} zoops={} seeds={} lens={:?}", run, width, nseq, zoops, nseeds, lins.iter().map(|s| s.len()).collect::<Vec<_>>());
        let r = catch_unwind(AssertUnwindSafe(|| -> Vec<String> {
            let mut f = Vec::new();
            let data = SamplerData::new(striped.clone());
            let mk = |sd: u64| { if !zoops && run % 6 == 2 { return lightmotif::sampler::Sampler::new(&data, width, rand::rngs::StdRng::seed_from_u64(sd)); } let mut b = SamplerBuilder::new(&data); b.width(width); if zoops { b.mode(SamplerMode::Zoops).seeds(nseeds.min(nseq)).patience(1000); } b.sample(rand::rngs::StdRng::seed_from_u64(sd)) };
            let mut s1 = mk(run as u64 + seed);
            let mut s2 = mk(run as u64 + seed);
            let check_state = |s: &lightmotif::sampler::Sampler<_, Dna, Vec<StripedSequence<Dna, U32>>, U32>, f: &mut Vec<String>, step: usize| {
                let act = s.active_sequences(); let starts = s.active_starts();
                let cm = s.count_matrix();
                for i in 0..width { for k in 0..5 {
                    let want = act.iter().zip(starts.iter()).filter(|(z, st)| lins[**z][**st + i].as_index() == k).count() as u32;
                    if cm.matrix()[i][k] != want { f.push(fail("sampler_state", format!("step {}: motif count [{}][{}] = {} but the windows of the active sequences give {}", step, i, k, cm.matrix()[i][k], want), case.clone())); return; }
                } }
                for (z, st) in act.iter().zip(starts.iter()) { if st + width > lins[*z].len() { f.push(fail("sampler_state", format!("step {}: window of sequence {} leaves the sequence", step, z), case.clone())); return; } }
                // background = normalised symbol counts outside the windows
                let mut out = [0usize; 5];
                for (z, st) in act.iter().zip(starts.iter()) { for (p, x) in lins[*z].iter().enumerate() { if p < *st || p >= *st + width { out[x.as_index()] += 1; } } }
                let tot: usize = out.iter().sum();
                if tot > 0 { let bg = s.background(); for k in 0..5 { let want = out[k] as f32 / tot as f32; if (bg.frequencies()[k] - want).abs() > 1e-6 { f.push(fail("sampler_state", format!("step {}: background[{}] = {} expected {}", step, k, bg.frequencies()[k], want), case.clone())); return; } } }
            };
            check_state(&s1, &mut f, 0);
            for step in 0..steps {
                let act_before = s1.active_sequences(); let starts_before = s1.active_starts();
                let (a, b) = (s1.next(), s2.next());
                match (a, b) {
                    (None, None) => break,
                    (Some(x), Some(y)) => {
                        if x.z != y.z || x.step != y.step || x.counts != y.counts { f.push(fail("sampler_next", format!("step {}: two runs with the same seed diverge", step), case.clone())); break; }
                        for i in 0..width { for k in 0..5 {
                            let want = act_before.iter().zip(starts_before.iter()).filter(|(z, st)| **z != x.z && lins[**z][**st + i].as_index() == k).count() as u32;
                            if x.counts.matrix()[i][k] != want { f.push(fail("sampler_next", format!("step {}: reported counts [{}][{}] = {} but the alignment without sequence {} gives {}", step, i, k, x.counts.matrix()[i][k], x.z, want), case.clone())); }
                        } }
                    }
                    _ => { f.push(fail("sampler_next", format!("step {}: one run ended, the other did not", step), case.clone())); break; }
                }
                check_state(&s1, &mut f, step + 1);
                if !f.is_empty() { break; }
            }
            f
        }));
        n += steps;
        match r { Err(_) => fails.push(fail("sampler", format!("panic at {}", panic_loc()), case)), Ok(f) => fails.extend(f) }
        if fails.len() > 3 { break; }
    }
    (n, fails)
}
