//! Native replay / search crate: runs the REAL lightmotif code (path dependency on /repo, rebuilt from the working
//! tree) against naive re-implementations of the spec functions of /verif/spec on small inputs.
//!   replay sweep  <Cxx> <tier> <seed>        exhaustive / randomised small-input sweep; prints `FAIL {json}` on disagreement
//!   replay search <Cxx> <unit> <tier> <seed> same, restricted to the sweeps relevant to one unit (used to find an input
//!                                            for an obligation Verus refuted)
//!   replay replay <file.json>                re-run the input stored in a replay file; exit 1 if it still fails
use std::panic::{catch_unwind, AssertUnwindSafe};

use lightmotif::abc::{Alphabet, Background, Dna, Nucleotide, Symbol};
use lightmotif::dense::DenseMatrix;
use lightmotif::num::U32;
use lightmotif::pli::{Pipeline, Stripe};
use lightmotif::pwm::ScoringMatrix;
use lightmotif::scan::Scanner;
use lightmotif::seq::{EncodedSequence, StripedSequence};

mod rng;
mod io;
mod sweeps;
use rng::Rng;

pub static LAST_PANIC: std::sync::Mutex<String> = std::sync::Mutex::new(String::new());

fn quiet_panics() {
    std::panic::set_hook(Box::new(|info| {
        let loc = info.location().map(|l| format!("{}:{}", l.file().rsplit("/repo/").next().unwrap_or(l.file()), l.line())).unwrap_or_default();
        if let Ok(mut g) = LAST_PANIC.lock() { *g = loc; }
    }));
}

fn dna_seq(rng: &mut Rng, len: usize, with_n: bool) -> Vec<Nucleotide> {
    let syms = Dna::symbols();
    (0..len).map(|_| syms[rng.below(if with_n { 5 } else { 4 })]).collect()
}

fn to_text(s: &[Nucleotide]) -> String {
    s.iter().map(|c| c.as_char()).collect()
}

fn from_text(t: &str) -> Vec<Nucleotide> {
    t.bytes().map(|b| Nucleotide::from_ascii(b).unwrap()).collect()
}

/// scoring matrix with small "nice" values: finite non-wildcard cells (multiples of 1/8 in [-4, 4]), wildcard column -inf or finite
fn pssm_from(cells: &[[f32; 5]]) -> ScoringMatrix<Dna> {
    let mut data = DenseMatrix::<f32, <Dna as Alphabet>::K>::new(cells.len());
    for (i, row) in cells.iter().enumerate() {
        for j in 0..5 {
            data[i][j] = row[j];
        }
    }
    ScoringMatrix::new(Background::uniform(), data)
}

fn rand_cells(rng: &mut Rng, m: usize, ninf: bool) -> Vec<[f32; 5]> {
    (0..m)
        .map(|_| {
            let mut r = [0f32; 5];
            for j in 0..4 {
                r[j] = (rng.below(65) as f32 - 32.0) / 8.0;
            }
            // finite wildcard scores anywhere in the range of the other cells (not just the row minimum)
            r[4] = if ninf { f32::NEG_INFINITY } else { (rng.below(65) as f32 - 32.0) / 8.0 };
            r
        })
        .collect()
}

/// spec: score(M, s, i) = left-to-right f32 sum of M[j][s[i+j]] starting from 0.0
fn naive_score(cells: &[[f32; 5]], s: &[Nucleotide], i: usize) -> f32 {
    let mut x = 0.0f32;
    for j in 0..cells.len() {
        x += cells[j][s[i + j].as_index()];
    }
    x
}

fn naive_hits(cells: &[[f32; 5]], s: &[Nucleotide], thr: f32) -> Vec<(usize, f32)> {
    let m = cells.len();
    if s.len() < m {
        return vec![];
    }
    (0..=s.len() - m)
        .map(|i| (i, naive_score(cells, s, i)))
        .filter(|(_, x)| *x >= thr)
        .collect()
}

#[derive(Clone, Debug)]
struct ScanCase {
    seq: String,
    cells: Vec<[f32; 5]>,
    thr: f32,
    block: usize,
    consumed: usize,
}

fn fmt_f(x: f32) -> String {
    if x == f32::NEG_INFINITY { "\"-inf\"".into() } else { format!("{}", x) }
}

impl ScanCase {
    fn json(&self, unit: &str, what: &str) -> String {
        let cells: Vec<String> = self.cells.iter().map(|r| format!("[{}]", r.iter().map(|x| fmt_f(*x)).collect::<Vec<_>>().join(","))).collect();
        format!(
            "{{\"unit\":\"{}\",\"what\":\"{}\",\"seq\":\"{}\",\"cells\":[{}],\"thr\":{},\"block\":{},\"consumed\":{}}}",
            unit, what, self.seq, cells.join(","), fmt_f(self.thr), self.block, self.consumed
        )
    }
}

fn striped_for(s: &[Nucleotide], pssm: &ScoringMatrix<Dna>) -> StripedSequence<Dna, U32> {
    let mut st: StripedSequence<Dna, U32> = Pipeline::<Dna, _>::generic().stripe(s);
    // history: the same striped sequence was first configured for a LONGER motif (look-ahead rows only ever grow)
    if s.len() % 3 == 1 { st.configure_wrap(pssm.len() + 1 + s.len() % 5); }
    // ... or first for a SHORTER one (the missing look-ahead rows are appended by the second call)
    if s.len() % 3 == 2 && pssm.len() > 2 { st.configure_wrap(1 + s.len() % (pssm.len() - 2)); }
    st.configure(pssm);
    // ... and sometimes a clone of the configured sequence (a clone must carry the look-ahead rows AND their count)
    if s.len() % 4 == 3 { return st.clone(); }
    st
}

/// C02: iterate to exhaustion; compare with the naive hit set (positions exactly once, exact scores)
fn check_scan_next(c: &ScanCase) -> Result<(), String> {
    let s = from_text(&c.seq);
    let pssm = pssm_from(&c.cells);
    let st = striped_for(&s, &pssm);
    let want = naive_hits(&c.cells, &s, c.thr);
    let got = catch_unwind(AssertUnwindSafe(|| {
        let mut sc = Scanner::new(&pssm, &st);
        sc.threshold(c.thr).block_size(c.block);
        let mut v: Vec<(usize, f32)> = Vec::new();
        let mut guard = 0usize;
        while let Some(h) = sc.next() {
            v.push((h.position(), h.score()));
            guard += 1;
            if guard > s.len() + 10 { break; }
        }
        v
    }));
    match got {
        Err(_) => Err("panic".into()),
        Ok(mut v) => {
            v.sort_by(|a, b| a.0.cmp(&b.0));
            if v.len() != want.len() {
                return Err(format!("yielded {} hits, expected {}", v.len(), want.len()));
            }
            for (a, b) in v.iter().zip(want.iter()) {
                if a.0 != b.0 || a.1.to_bits() != b.1.to_bits() {
                    return Err(format!("hit {:?} != expected {:?}", a, b));
                }
            }
            Ok(())
        }
    }
}

/// C03: consume `consumed` hits, then max(): None iff nothing left; else a remaining hit of maximal score
fn check_scan_max(c: &ScanCase) -> Result<(), String> {
    let s = from_text(&c.seq);
    let pssm = pssm_from(&c.cells);
    let st = striped_for(&s, &pssm);
    let want = naive_hits(&c.cells, &s, c.thr);
    let got = catch_unwind(AssertUnwindSafe(|| {
        let mut sc = Scanner::new(&pssm, &st);
        sc.threshold(c.thr).block_size(c.block);
        let mut taken = Vec::new();
        for _ in 0..c.consumed {
            match sc.next() {
                Some(h) => taken.push(h.position()),
                None => break,
            }
        }
        let m = sc.max().map(|h| (h.position(), h.score()));
        // the same question asked through the builder chain (a `&mut Scanner`: the provided Iterator::max, which orders hits with
        // `Ord for Hit`) and through `Ord` on a collected list: the best hit must win there too
        if c.consumed == 0 {
            let via_ref = Scanner::new(&pssm, &st).threshold(c.thr).block_size(c.block).max().map(|h| h.score());
            let all: Vec<lightmotif::scan::Hit> = { let mut s2 = Scanner::new(&pssm, &st); s2.threshold(c.thr).block_size(c.block); s2.collect() };
            let via_ord = all.iter().max().map(|h| h.score());
            let direct = m.map(|x| x.1);
            if via_ref.map(|x| x.to_bits()) != direct.map(|x| x.to_bits()) || via_ord.map(|x| x.to_bits()) != direct.map(|x| x.to_bits()) {
                panic!("best hit differs by route: by value {:?}, through &mut Scanner {:?}, Ord on the hit list {:?}", direct, via_ref, via_ord);
            }
        }
        (taken, m)
    }));
    match got {
        Err(_) => Err(format!("panic: {}", LAST_PANIC.lock().map(|g| g.clone()).unwrap_or_default())),
        Ok((taken, m)) => {
            let rest: Vec<&(usize, f32)> = want.iter().filter(|(p, _)| !taken.contains(p)).collect();
            match m {
                None => if rest.is_empty() { Ok(()) } else { Err(format!("max() = None but {} hits remain", rest.len())) },
                Some((p, x)) => {
                    if rest.is_empty() {
                        return Err(format!("max() = Some(({}, {})) but no hit remains (score below threshold?)", p, x));
                    }
                    let best = rest.iter().map(|h| h.1).fold(f32::NEG_INFINITY, f32::max);
                    match rest.iter().find(|h| h.0 == p) {
                        None => Err(format!("max() returned position {} which is not a remaining hit", p)),
                        Some(h) => {
                            if h.1.to_bits() != x.to_bits() { Err(format!("max() score {} != exact {}", x, h.1)) }
                            else if x < best { Err(format!("max() score {} < best remaining {}", x, best)) }
                            else { Ok(()) }
                        }
                    }
                }
            }
        }
    }
}

fn scan_cases(rng: &mut Rng, tier: &str, f: &mut dyn FnMut(&ScanCase) -> bool) {
    // structured part: every length 0..=70 (covers L<M, L=M, empty) plus lengths whose row count is near a block multiple
    let mut lens: Vec<usize> = (0..=70).collect();
    lens.extend_from_slice(&[95, 96, 97, 128, 129, 250 * 32 - 5, 8000, 8192 + 31]);
    let blocks = [1usize, 2, 3, 5, 256];
    let reps = if tier == "thorough" { 12 } else { 2 };
    for &l in &lens {
        for m in [1usize, 2, 3, 5] {
            for &b in &blocks {
                if l > 1000 && b < 5 { continue; }
                for rep in 0..reps {
                    let s = dna_seq(rng, l, rep % 2 == 1);
                    let cells = rand_cells(rng, m, rep % 2 == 0);   // odd reps: finite wildcard column AND wildcards in the sequence
                    let thr = match rep % 4 { 0 => -1000.0, 1 => 0.0, 2 => (rng.below(33) as f32 - 16.0) / 4.0, _ => f32::NEG_INFINITY };
                    let c = ScanCase { seq: to_text(&s), cells, thr, block: b, consumed: rng.below(4) };
                    if !f(&c) { return; }
                }
            }
        }
    }
    // random part: wide motifs (6..25 columns) on long sequences (300..3300): many near-tied windows, whose 8-bit images (rounded up
    // cell by cell) are ordered differently from their exact scores - the regime in which the pruning bound of `max` must be the
    // image of the best EXACT score seen so far, and in which a block maximum rarely decides alone
    let nrand = if tier == "thorough" { 700 } else { 90 };
    for rep in 0..nrand {
        let m = 6 + rng.below(20);
        let l = 300 + rng.below(3001);
        let s = dna_seq(rng, l, rep % 5 == 4);
        let cells = rand_cells(rng, m, rep % 5 != 4);
        // every fourth case: a threshold BIT-EQUAL to the best exact score (or to the score of a random position): `>=` versus `>`
        let thr = if rep % 4 == 3 { let best = (0..=l - m).map(|i| naive_score(&cells, &s, i)).fold(f32::NEG_INFINITY, f32::max); if rep % 8 == 3 && best.is_finite() { best } else { naive_score(&cells, &s, rng.below(l - m + 1)) } }
            else { match rep % 3 { 0 => -1000.0, 1 => f32::NEG_INFINITY, _ => -(rng.below(40) as f32) } };
        let c = ScanCase { seq: to_text(&s), cells, thr, block: [1usize, 2, 7, 64, 256][rng.below(5)], consumed: rng.below(3) };
        if !f(&c) { return; }
    }
}

fn sweep_scan(which: &str, tier: &str, seed: u64) -> (usize, Option<String>) {
    let mut rng = Rng::new(seed ^ 0x5ca9);
    let mut n = 0usize;
    let mut fail = None;
    scan_cases(&mut rng, tier, &mut |c| {
        n += 1;
        let r = if which == "next" { check_scan_next(c) } else { check_scan_max(c) };
        if let Err(e) = r {
            fail = Some(c.json(if which == "next" { "scan_next" } else { "scan_max" }, &e));
            false
        } else { true }
    });
    (n, fail)
}

/// map a Verus unit name (io_jaspar_next, io_uniprobe_build_matrix, ...) to the format whose sweep exercises it
fn unit_fmt(unit: &str) -> &str {
    if unit.contains("jaspar16") { "jaspar16" } else if unit.contains("jaspar") { "jaspar" } else if unit.contains("transfac") { "transfac" } else if unit.contains("uniprobe") { "uniprobe" } else { "" }
}

fn main() {
    quiet_panics();
    let args: Vec<String> = std::env::args().collect();
    let cmd = args.get(1).map(|s| s.as_str()).unwrap_or("");
    match cmd {
        "sweep" | "search" => {
            let pid = args[2].as_str();
            let (unit, tier, seed) = if cmd == "search" {
                (args[3].as_str(), args.get(4).map(|s| s.as_str()).unwrap_or("quick"), args.get(5).and_then(|s| s.parse().ok()).unwrap_or(0u64))
            } else {
                ("", args.get(3).map(|s| s.as_str()).unwrap_or("quick"), args.get(4).and_then(|s| s.parse().ok()).unwrap_or(0u64))
            };
            let mut total = 0usize;
            let mut fails = Vec::new();
            let mut run = |name: &str, r: (usize, Option<String>)| {
                total += r.0;
                if let Some(f) = r.1 { fails.push(f); }
                let _ = name;
            };
            match pid {
                "C02" => { if unit.is_empty() || unit.starts_with("scan_next") { run("scan_next", sweep_scan("next", tier, seed)); } }
                "C03" => { if unit.is_empty() || unit.starts_with("scan_max") { run("scan_max", sweep_scan("max", tier, seed)); } }
                "C01" => { let (n, f) = sweeps::sweep_c01(tier, seed); total += n; fails.extend(f); }
                "C04" => { let (n, f) = sweeps::sweep_c04(tier, seed); total += n; fails.extend(f); }
                "C05" => { let (n, f) = sweeps::sweep_c05(tier, seed); total += n; fails.extend(f); }
                "C07" => { let (n, f) = sweeps::sweep_c07(tier, seed); total += n; fails.extend(f); }
                "C08" => { let (n, f) = sweeps::sweep_c08(tier, seed); total += n; fails.extend(f);
                           // "the 8-bit pre-filter can produce false candidates but never lose a hit": the scanner is where it is used
                           if unit.is_empty() || unit.starts_with("scan_") { for w in ["next", "max"] { let r = sweep_scan(w, tier, seed); total += r.0; if let Some(f) = r.1 { fails.push(f); } } } }
                "C09" | "C10" => { let (n, f) = sweeps::sweep_c09(tier, seed); total += n; fails.extend(f.into_iter().filter(|x| (pid == "C10") == x.contains("_rc\""))); }
                "C16" => { let (n, f) = sweeps::sweep_c16(tier, seed); total += n; fails.extend(f); }
                // C06 (memory safety): the functional sweeps of every property whose code has unsafe kernels; a stray read / write
                // shows either as a wrong value here or as a crash of this process (which the driver reports for C06)
                "C06" => { for (nm, f_) in [("C04", sweeps::sweep_c04 as fn(&str, u64) -> (usize, Vec<String>)), ("C05", sweeps::sweep_c05), ("C07", sweeps::sweep_c07), ("C01", sweeps::sweep_c01), ("C08", sweeps::sweep_c08), ("C19", sweeps::sweep_c19)] {
                               eprintln!("SWEEP {}", nm); let (n, f) = f_(tier, seed); total += n; fails.extend(f.into_iter().filter(|x| !x.contains("pli_score_u8_generic_overflow"))); } }
                "C19" => { let (n, f) = sweeps::sweep_c19(tier, seed); total += n; fails.extend(f); }
                "C14" => { let (n, f) = io::sweep_c14(tier, seed, unit_fmt(unit)); total += n; fails.extend(f); }
                "C15" => { let (n, f) = io::sweep_c15(tier, seed, unit_fmt(unit)); total += n; fails.extend(f); }
                _ => {}
            }
            // one FAIL line per unit (the first case found)
            let mut seen = std::collections::HashSet::new();
            fails.retain(|f| { let u = f.split("\"unit\":\"").nth(1).and_then(|x| x.split('"').next()).unwrap_or("").to_string(); seen.insert(u) });
            for f in &fails { println!("FAIL {}", f); }
            println!("sweep {} unit={} tier={} cases={} failures={}", pid, unit, tier, total, fails.len());
            std::process::exit(if fails.is_empty() { 0 } else { 1 });
        }
        "replay" => {
            let txt = std::fs::read_to_string(&args[2]).expect("replay file");
            let r = replay_file(&txt);
            match r {
                Ok(()) => { println!("replay: input no longer fails"); std::process::exit(0) }
                Err(e) => { println!("replay: STILL FAILS: {}", e); std::process::exit(1) }
            }
        }
        _ => {
            eprintln!("usage: replay sweep|search|replay ...");
            std::process::exit(2);
        }
    }
}

// --- minimal JSON field extraction (the replay files are written by /verif/driver/run.py) ------------------------
fn field<'a>(txt: &'a str, key: &str) -> Option<&'a str> {
    let k = format!("\"{}\":", key);
    let i = txt.find(&k)? + k.len();
    let rest = txt[i..].trim_start();
    let end = if rest.starts_with('"') {
        1 + rest[1..].find('"')? + 1
    } else if rest.starts_with('[') {
        let mut d = 0; let mut e = 0;
        for (j, ch) in rest.char_indices() { if ch == '[' { d += 1 } else if ch == ']' { d -= 1; if d == 0 { e = j + 1; break; } } }
        e
    } else {
        rest.find(|c: char| c == ',' || c == '}').unwrap_or(rest.len())
    };
    Some(rest[..end].trim())
}

fn parse_f(s: &str) -> f32 {
    let t = s.trim().trim_matches('"');
    if t == "-inf" { f32::NEG_INFINITY } else { t.parse().unwrap() }
}

fn replay_file(txt: &str) -> Result<(), String> {
    // the driver stores the FAIL json under "input" (possibly as an escaped string)
    // the driver stores the compact FAIL json as an escaped string under "input_raw"
    let txt = match txt.find("\"input_raw\":") {
        Some(i) => txt[i + 12..].trim().trim_start_matches('"').replace("\\\"", "\""),
        None => txt.replace("\\\"", "\""),
    };
    let unit = field(&txt, "unit").ok_or("no unit in replay file (no-failing-input-found?)")?.trim_matches('"').to_string();
    match unit.as_str() {
        "scan_next" | "scan_max" => {
            let seq = field(&txt, "seq").ok_or("seq")?.trim_matches('"').to_string();
            let cells_txt = field(&txt, "cells").ok_or("cells")?;
            let mut cells = Vec::new();
            for row in cells_txt.trim_start_matches('[').trim_end_matches(']').split("],[") {
                let v: Vec<f32> = row.trim_matches(|c| c == '[' || c == ']').split(',').map(parse_f).collect();
                cells.push([v[0], v[1], v[2], v[3], v[4]]);
            }
            let c = ScanCase {
                seq, cells,
                thr: parse_f(field(&txt, "thr").ok_or("thr")?),
                block: field(&txt, "block").ok_or("block")?.parse().map_err(|_| "block")?,
                consumed: field(&txt, "consumed").ok_or("consumed")?.parse().map_err(|_| "consumed")?,
            };
            if unit == "scan_next" { check_scan_next(&c) } else { check_scan_max(&c) }
        }
        u if u.starts_with("io_") => {
            let fmt = field(&txt, "format").ok_or("format")?.trim_matches('"').to_string();
            let hex = field(&txt, "hex").ok_or("hex")?.trim_matches('"').to_string();
            let cap: usize = field(&txt, "cap").ok_or("cap")?.parse().map_err(|_| "cap")?;
            io::replay(u, &fmt, &hex, cap)
        }
        _ => Err(format!("unknown unit {}", unit)),
    }
}
