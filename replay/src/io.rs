//! C14 / C15 native sweeps: the four format readers on well-formed files under every chunking, and on malformed bytes.
use std::io::{BufReader, Cursor};
use std::panic::{catch_unwind, AssertUnwindSafe};

use lightmotif::abc::{Alphabet, Dna, Protein, Symbol};
use lightmotif_io::{jaspar, jaspar16, transfac, uniprobe};

use crate::rng::Rng;

pub const FORMATS: [&str; 7] = ["jaspar", "jaspar16", "transfac", "uniprobe", "jaspar16p", "transfacp", "uniprobep"];   // ..p: protein alphabet

/// outcome of reading a byte string to the first error / end of input: number of records, or "panic"/"hang"
pub fn read_all(fmt: &str, bytes: &[u8], cap: usize) -> Result<(usize, bool, Vec<String>), String> {
    let limit = bytes.len() + 16;
    let r = catch_unwind(AssertUnwindSafe(|| -> Result<(usize, bool, Vec<String>), String> {
        let rd = BufReader::with_capacity(cap.max(1), Cursor::new(bytes.to_vec()));
        let mut n = 0usize;
        let mut steps = 0usize;
        let mut sigs = Vec::new();
        macro_rules! drive {
            ($it:expr, $sig:expr) => {{
                let mut it = $it;
                loop {
                    steps += 1;
                    if steps > limit { return Err("hang: more next() calls than input bytes".into()); }
                    match it.next() {
                        None => return Ok((n, false, sigs)),
                        Some(Err(_)) => return Ok((n, true, sigs)),
                        Some(Ok(rec)) => { n += 1; sigs.push($sig(&rec)); }
                    }
                }
            }};
        }
        match fmt {
            "jaspar" => drive!(jaspar::read(rd), |r: &jaspar::Record| format!("{}|{:?}|{}", r.id(), r.description(), mat_u32(r.matrix().matrix()))),
            "jaspar16" => drive!(jaspar16::read::<_, Dna>(rd), |r: &jaspar16::Record<Dna>| format!("{}|{:?}|{}", r.id(), r.description(), mat_u32(r.matrix().matrix()))),
            "transfac" => drive!(transfac::read::<_, Dna>(rd), |r: &transfac::Record<Dna>| format!("{:?}|{:?}|{:?}|{:?}|{}", r.id(), r.accession(), r.name(), r.description(), r.to_counts().map(|c| mat_u32(c.matrix())).unwrap_or_default())),
            "uniprobe" => drive!(uniprobe::read::<_, Dna>(rd), |r: &uniprobe::Record<Dna>| format!("{}|{}", r.id(), mat_f32(r.matrix().matrix()))),
            "jaspar16p" => drive!(jaspar16::read::<_, Protein>(rd), |r: &jaspar16::Record<Protein>| format!("{}|{:?}|{}", r.id(), r.description(), mat_gen(r.matrix().matrix().iter().map(|x| x.iter().map(|v| v.to_string()).collect()).collect()))),
            "transfacp" => drive!(transfac::read::<_, Protein>(rd), |r: &transfac::Record<Protein>| format!("{:?}|{:?}|{:?}|{}", r.id(), r.accession(), r.name(), r.to_counts().map(|c| mat_gen(c.matrix().iter().map(|x| x.iter().map(|v| v.to_string()).collect()).collect())).unwrap_or_default())),
            "uniprobep" => drive!(uniprobe::read::<_, Protein>(rd), |r: &uniprobe::Record<Protein>| format!("{}|{}", r.id(), mat_gen(r.matrix().matrix().iter().map(|x| x.iter().map(|v| v.to_string()).collect()).collect()))),
            _ => Err("unknown format".into()),
        }
    }));
    match r {
        Err(_) => Err(format!("panic at {}", crate::LAST_PANIC.lock().map(|g| g.clone()).unwrap_or_default())),
        Ok(x) => x,
    }
}

/// C15, first clause read literally ("EACH request for the next record returns ... without panicking"): a consumer that does NOT stop
/// at the first error but asks again, up to `extra` more times after every error. Only panics are reported here (termination is
/// promised only to consumers that stop at the first error).
pub fn read_past_errors(fmt: &str, bytes: &[u8], cap: usize, extra: usize) -> Result<(), String> {
    let limit = bytes.len() + 16;
    let r = catch_unwind(AssertUnwindSafe(|| {
        let rd = BufReader::with_capacity(cap.max(1), Cursor::new(bytes.to_vec()));
        macro_rules! drive {
            ($it:expr) => {{
                let mut it = $it;
                let mut steps = 0usize;
                let mut errs = 0usize;
                loop {
                    steps += 1;
                    if steps > limit { break; }
                    match it.next() {
                        None => break,
                        Some(Err(_)) => { errs += 1; if errs > extra { break; } }
                        Some(Ok(_)) => {}
                    }
                }
            }};
        }
        match fmt {
            "jaspar" => drive!(jaspar::read(rd)),
            "jaspar16" => drive!(jaspar16::read::<_, Dna>(rd)),
            "transfac" => drive!(transfac::read::<_, Dna>(rd)),
            "uniprobe" => drive!(uniprobe::read::<_, Dna>(rd)),
            "jaspar16p" => drive!(jaspar16::read::<_, Protein>(rd)),
            "transfacp" => drive!(transfac::read::<_, Protein>(rd)),
            "uniprobep" => drive!(uniprobe::read::<_, Protein>(rd)),
            _ => {}
        }
    }));
    match r {
        Err(_) => Err(format!("panic on a request after an earlier error, at {}", crate::LAST_PANIC.lock().map(|g| g.clone()).unwrap_or_default())),
        Ok(()) => Ok(()),
    }
}

fn mat_u32(m: &lightmotif::dense::DenseMatrix<u32, <Dna as Alphabet>::K>) -> String {
    let mut s = String::new();
    for i in 0..m.rows() { for j in 0..5 { s.push_str(&format!("{},", m[i][j])); } s.push(';'); }
    s
}
fn mat_gen(rows: Vec<Vec<String>>) -> String {
    let mut s = String::new();
    for r in rows { for v in r { s.push_str(&v); s.push(','); } s.push(';'); }
    s
}
/// protein files (20 letters, 21 columns with the wildcard X): same record structure as the DNA generator
fn gen_file_protein(fmt: &str, rng: &mut Rng, n: usize) -> (String, Vec<String>) {
    let letters: Vec<char> = "ACDEFGHIKLMNPQRSTVWY".chars().collect();
    let idx = |c: char| Protein::symbols().iter().position(|s| s.as_char() == c).unwrap();
    let mut text = String::new(); let mut sigs = Vec::new();
    for k in 0..n {
        let w = 1 + rng.below(5);
        let id = format!("PR{:04}.{}", rng.below(10000), 1 + rng.below(9));
        let name = if rng.below(3) == 0 { format!("{}{}", ["β-catenin", "Müller", "αβγ"][rng.below(3)], k) } else { format!("PNAME{}", k) };
        let mut order: Vec<usize> = (0..20).collect();
        if rng.below(2) == 0 { order.reverse(); } if rng.below(2) == 0 { order.swap(3, 17); }
        match fmt {
            "jaspar16p" | "transfacp" => {
                let counts: Vec<Vec<u32>> = (0..w).map(|_| (0..20).map(|_| rng.below(30) as u32).collect()).collect();
                let mut rows = Vec::new();
                for i in 0..w { let mut row = vec!["0".to_string(); 21]; for (j, ch) in letters.iter().enumerate() { row[idx(*ch)] = counts[i][j].to_string(); } rows.push(row); }
                if fmt == "jaspar16p" {
                    let with_desc = rng.below(2) == 0;
                    if with_desc { text.push_str(&format!(">{} {}\n", id, name)); } else { text.push_str(&format!(">{}\n", id)); }
                    for &j in &order { let line: Vec<String> = (0..w).map(|i| format!("{:>2}", counts[i][j])).collect(); text.push_str(&format!("{} [{} ]\n", letters[j], line.join(" "))); }
                    sigs.push(format!("{}|{:?}|{}", id, if with_desc { Some(name.as_str()) } else { None }, mat_gen(rows)));
                } else {
                    text.push_str(&format!("AC  {}\nXX\nID  {}\nXX\nNA  {}\nXX\n", id, id, name));
                    text.push_str("P0"); for &j in &order { text.push_str(&format!("      {}", letters[j])); } text.push('\n');
                    for i in 0..w { text.push_str(&format!("{:02}", i + 1)); for &j in &order { text.push_str(&format!("     {:>2}", counts[i][j])); } text.push_str("      X\n"); }
                    text.push_str("XX\n//\n");
                    sigs.push(format!("{:?}|{:?}|{:?}|{}", Some(id.as_str()), Some(id.as_str()), Some(name.as_str()), mat_gen(rows)));
                }
            }
            _ => {
                text.push_str(&format!("{}\n", id));
                let freqs: Vec<Vec<f32>> = (0..w).map(|_| { let mut v: Vec<f32> = (0..19).map(|_| (1 + rng.below(2)) as f32 / 64.0).collect(); let s: f32 = v.iter().sum(); v.push(1.0 - s); v }).collect();
                for &j in &order { let line: Vec<String> = (0..w).map(|i| format!("{}", freqs[i][j])).collect(); text.push_str(&format!("{}:\t{}\n", letters[j], line.join("\t"))); }
                if rng.below(2) == 0 { text.push('\n'); }
                let mut rows = Vec::new();
                for i in 0..w { let mut row = vec!["0".to_string(); 21]; for (j, ch) in letters.iter().enumerate() { row[idx(*ch)] = format!("{}", freqs[i][j]).parse::<f32>().unwrap().to_string(); } rows.push(row); }
                sigs.push(format!("{}|{}", id, mat_gen(rows)));
            }
        }
    }
    (text, sigs)
}
fn mat_f32(m: &lightmotif::dense::DenseMatrix<f32, <Dna as Alphabet>::K>) -> String {
    let mut s = String::new();
    for i in 0..m.rows() { for j in 0..5 { s.push_str(&format!("{},", m[i][j])); } s.push(';'); }
    s
}

/// a well-formed file with `n` records in the given format, plus the expected signature of each record
pub fn gen_file(fmt: &str, rng: &mut Rng, n: usize) -> (String, Vec<String>) {
    if fmt.ends_with('p') && fmt != "jaspar" { return gen_file_protein(fmt, rng, n); }
    let mut text = String::new();
    let mut sigs = Vec::new();
    if fmt == "transfac" && rng.below(2) == 0 {
        text.push_str("VV  TRANSFAC MATRIX TABLE, Release 9.2 - licensed - 2005-06-30, (C) Biobase GmbH\nXX\n//\n");
    }
    for k in 0..n {
        let w = if rng.below(12) == 0 { 99 + rng.below(8) } else { 1 + rng.below(6) };   // occasionally 99..106 positions (3-digit row labels)
        let id = format!("MA{:04}.{}", rng.below(10000), 1 + rng.below(9));
        // "fields as written": names are not always ASCII (NF-κB, Krüppel, ...): multi-byte characters in every text field the formats have
        let name = if rng.below(3) == 0 { format!("{}{}", ["NF-κB", "Krüppel", "Señal", "ΩmegaΔ", "日本語", "é"][rng.below(6)], k) } else { format!("NAME{}", k) };
        // counts[i][sym] with sym in A C T G order of Dna::symbols() (index 0..4), N = 0
        // count magnitudes: mostly small; for the two JASPAR formats (exact integer parsers) sometimes counts that need up to 32 bits,
        // incl. values no f32 can represent; TRANSFAC keeps its table as f32, so it stays below 2^24 there
        let big = (fmt == "jaspar" || fmt == "jaspar16") && rng.below(4) == 0;
        let mut cnt = |rng: &mut Rng| -> u32 { if big { [16777217u32, 64755937, 2147483647, 4294967295, 33554431, 100000][rng.below(6)].wrapping_sub(rng.below(3) as u32) } else if fmt == "transfac" && rng.below(8) == 0 { 16777215 - rng.below(1000) as u32 } else { rng.below(50) as u32 } };
        let counts: Vec<[u32; 4]> = (0..w).map(|_| [cnt(rng), cnt(rng), cnt(rng), cnt(rng)]).collect();
        let idx = |c: char| Dna::symbols().iter().position(|s| s.as_char() == c).unwrap();
        let mut m = String::new();
        for i in 0..w { let mut row = [0u32; 5]; for (j, ch) in ['A', 'C', 'G', 'T'].iter().enumerate() { row[idx(*ch)] = counts[i][j]; } for j in 0..5 { m.push_str(&format!("{},", row[j])); } m.push(';'); }
        match fmt {
            "jaspar" => {
                let with_desc = rng.below(2) == 0;
                if with_desc { text.push_str(&format!(">{} {}\n", id, name)); } else { text.push_str(&format!(">{}\n", id)); }
                for j in 0..4 { let line: Vec<String> = (0..w).map(|i| format!("{}", counts[i][j])).collect(); text.push_str(&line.join(if rng.below(2) == 0 { " " } else { "  " })); text.push('\n'); }
                sigs.push(format!("{}|{:?}|{}", id, if with_desc { Some(name.as_str()) } else { None }, m));
            }
            "jaspar16" => {
                let with_desc = rng.below(2) == 0;
                if with_desc { text.push_str(&format!(">{} {}\n", id, name)); } else { text.push_str(&format!(">{}\n", id)); }
                let mut order = vec![0usize, 1, 2, 3];
                if rng.below(2) == 0 { order.swap(0, 3); order.swap(1, 2); }
                for &j in &order { let line: Vec<String> = (0..w).map(|i| format!("{:>2}", counts[i][j])).collect(); text.push_str(&format!("{} [{} ]\n", ['A', 'C', 'G', 'T'][j], line.join(" "))); }
                sigs.push(format!("{}|{:?}|{}", id, if with_desc { Some(name.as_str()) } else { None }, m));
            }
            "transfac" => {
                text.push_str(&format!("AC  {}\nXX\nID  {}\nXX\nNA  {}\nXX\n", id, id, name));
                // the optional description line, with one or two blanks after the tag
                let desc = if rng.below(2) == 0 { Some(format!("activator {} of {}", k, name)) } else { None };
                if let Some(d) = &desc { text.push_str(&format!("DE{}{}\nXX\n", if rng.below(2) == 0 { "  " } else { " " }, d)); }
                text.push_str("P0      A      C      G      T\n");
                for i in 0..w { text.push_str(&format!("{:02}     {:>2}     {:>2}     {:>2}     {:>2}      N\n", i + 1, counts[i][0], counts[i][1], counts[i][2], counts[i][3])); }
                text.push_str("XX\n");
                // optional blocks after the matrix, as in TRANSFAC releases: binding sites, comments, and a literature reference
                if rng.below(3) == 0 { text.push_str("BA  5 elements from 5 genes\nXX\nBS  AGAACCAGCTGTGGAATG; R05143; 7; 18;; p.\nBS  AAAAACAGCTGTTGTCAT; R05144; 7; 18;; p.\nXX\nCC  compiled sequences – Krüppel-like, 5′→3′\nXX\n"); }
                if rng.below(2) == 0 {
                    text.push_str("RN  [1]; RE0001814.\nRX  PUBMED: 2833704.\nRA  Mermod N., Williams T. J., Tjian R.\nRT  Enhancer binding factors AP-4 and AP-1 act in concert\nRL  Nature 332:557-561 (1988).\nXX\n");
                    if rng.below(2) == 0 { text.push_str("RN  [2]\nRA  Hu Y.-F., Lüscher B., Ørsted Å.\nRT  Über die Bindung von NF-κB\nRL  Genes Dev. 4:1741–1752 (1990).\nXX\n"); }
                }
                text.push_str("//\n");
                sigs.push(format!("{:?}|{:?}|{:?}|{:?}|{}", Some(id.as_str()), Some(id.as_str()), Some(name.as_str()), desc.as_deref(), m));
            }
            "uniprobe" => {
                // frequencies: rows must sum to ~1
                text.push_str(&format!("{}\n", id));
                let mut order = vec![0usize, 1, 2, 3];
                if rng.below(2) == 0 { order.reverse(); }
                let freqs: Vec<[f32; 4]> = (0..w).map(|i| { let a = (1 + rng.below(5)) as f32 / 20.0; let b = (1 + rng.below(5)) as f32 / 20.0; let c = (1 + rng.below(5)) as f32 / 20.0; let _ = i; [a, b, c, 1.0 - a - b - c] }).collect();
                for &j in &order { let line: Vec<String> = (0..w).map(|i| format!("{}", freqs[i][j])).collect(); text.push_str(&format!("{}:\t{}\n", ['A', 'C', 'G', 'T'][j], line.join("\t"))); }
                if rng.below(2) == 0 { text.push('\n'); }
                let mut mm = String::new();
                for i in 0..w { let mut row = [0f32; 5]; for (j, ch) in ['A', 'C', 'G', 'T'].iter().enumerate() { row[idx(*ch)] = format!("{}", freqs[i][j]).parse().unwrap(); } for j in 0..5 { mm.push_str(&format!("{},", row[j])); } mm.push(';'); }
                sigs.push(format!("{}|{}", id, mm));
            }
            _ => {}
        }
    }
    (text, sigs)
}

fn esc(b: &[u8]) -> String {
    let mut s = String::new();
    for &c in b { if c == b'"' || c == b'\\' { s.push('\\'); s.push(c as char); } else if c == b'\n' { s.push_str("\\n"); } else if c == b'\t' { s.push_str("\\t"); } else if (32..127).contains(&c) { s.push(c as char); } else { s.push_str(&format!("\\u{:04x}", c)); } }
    s
}

pub fn case_json(unit: &str, what: &str, fmt: &str, bytes: &[u8], cap: usize) -> String {
    let hex: String = bytes.iter().map(|b| format!("{:02x}", b)).collect();
    format!("{{\"unit\":\"{}\",\"what\":\"{}\",\"format\":\"{}\",\"cap\":{},\"hex\":\"{}\",\"text\":\"{}\"}}", unit, what, fmt, cap, hex, esc(&bytes[..bytes.len().min(120)]))
}

/// C15: no panic, no hang on malformed input
pub fn sweep_c15(tier: &str, seed: u64, only: &str) -> (usize, Vec<String>) {
    let mut rng = Rng::new(seed ^ 0xc15);
    let mut n = 0usize;
    let mut fails: Vec<String> = Vec::new();
    let mut failed_fmt = std::collections::HashSet::new();
    for fmt in FORMATS {
        if !only.is_empty() && !only.contains(fmt) { continue; }
        let mut inputs: Vec<Vec<u8>> = vec![vec![], b"\n".to_vec(), b">".to_vec(), b">\n".to_vec(), b"X\n".to_vec(), b"//\n".to_vec(), vec![0xff, 0xfe], b"VV\n".to_vec(), b">A x->y\n1 2\n1 2\n1 2\n1 2\n>B\n1 2\n1 2\n1 2\n1 2\n".to_vec(), b">A x->y\nA [ 1 ]\nzz\n".to_vec(), b">A x->y\nA [ 1 2 ]\nC [ 1 2 ]\nG [ 1 2 ]\nT [ 1 2 ]\n>B\nA [ 1 2 ]\nC [ 1 2 ]\nG [ 1 2 ]\nT [ 1 2 ]\n".to_vec()];
        let files = if tier == "thorough" { 6 } else { 2 };
        for _ in 0..files {
            let cnt = 1 + rng.below(2); let (text, _) = gen_file(fmt, &mut rng, cnt);
            let b = text.into_bytes();
            for k in 0..=b.len() { inputs.push(b[..k].to_vec()); }                       // every prefix
            let muts = if tier == "thorough" { b.len() * 3 } else { b.len() };
            for _ in 0..muts {
                let mut m = b.clone();
                let i = rng.below(m.len());
                match rng.below(5) {
                    0 => { m[i] = [b' ', b'\n', b'>', b'0', b'A', b'[', b']', b'\t', 0xff, b'/', b':'][rng.below(11)]; }
                    1 => { m.remove(i); }
                    2 => { m.insert(i, [b' ', b'\n', b'>', b'9', b'N', b'\t'][rng.below(6)]); }
                    3 => { // valid multi-byte UTF-8 characters (2, 3 and 4 bytes) at arbitrary offsets, incl. right after a line start
                        let ch = ["\u{e9}", "\u{20ac}", "\u{1f600}"][rng.below(3)].as_bytes().to_vec();
                        let at = if rng.below(2) == 0 { i } else { m[..i].iter().rposition(|&b| b == b'\n').map(|p| p + 1 + rng.below(2)).unwrap_or(0).min(m.len()) };
                        for (o, b) in ch.iter().enumerate() { m.insert(at + o, *b); } }
                    _ => { let j = rng.below(m.len()); let (a, c) = (i.min(j), i.max(j)); m.drain(a..c); }   // delete a span (ragged rows, headers without matrix)
                }
                inputs.push(m);
            }
            // two faults: a parse error at q, and a multi-byte character a power-of-two-ish distance after it (error paths that cut
            // the remaining text at a fixed byte count must cut on a character boundary)
            if b.len() < 1200 {
                let qstep = if tier == "thorough" { 1 } else { 5 };
                for q in (0..b.len()).step_by(qstep) {
                    for d in 1usize..=260 {
                        if q + d > b.len() { continue; }
                        let mut m = b.clone();
                        m[q] = b'#';
                        let ch = "\u{e9}".as_bytes();
                        m.insert(q + d, ch[0]); m.insert(q + d + 1, ch[1]);
                        inputs.push(m);
                    }
                }
            }
            // every prefix of a few variants that contain multi-byte characters (input ending INSIDE a character)
            for _ in 0..3 {
                let mut m = b.clone();
                for _ in 0..4 { let ch = ["\u{e9}", "\u{20ac}", "\u{1f600}"][rng.below(3)].as_bytes().to_vec(); let at = rng.below(m.len() + 1); for (o, x) in ch.iter().enumerate() { m.insert(at + o, *x); } }
                for k in 0..=m.len() { inputs.push(m[..k].to_vec()); }
                for lead in [0xC2u8, 0xE2, 0xF0, 0xF4] { let mut t = b.clone(); t.push(lead); inputs.push(t); }
            }
            // line-level mutations: one row longer / shorter than the others (ragged matrices), a repeated line, a missing line
            let lines: Vec<&[u8]> = b.split_inclusive(|&c| c == b'\n').collect();
            for li in 0..lines.len() {
                for kind in 0..4 {
                    let mut m: Vec<u8> = Vec::new();
                    for (lj, l) in lines.iter().enumerate() {
                        if lj != li { m.extend_from_slice(l); continue; }
                        let body = if l.ends_with(b"\n") { &l[..l.len() - 1] } else { &l[..] };
                        match kind {
                            0 => { m.extend_from_slice(body); m.extend_from_slice(if fmt == "uniprobe" { b"\t0.5" } else { b" 7" }); m.push(b'\n'); }
                            1 => { let cut = body.iter().rposition(|&c| c == b' ' || c == b'\t').unwrap_or(body.len()); m.extend_from_slice(&body[..cut]); m.push(b'\n'); }
                            2 => { m.extend_from_slice(l); m.extend_from_slice(l); }
                            _ => {}
                        }
                    }
                    inputs.push(m);
                }
            }
        }
        for inp in &inputs {
            for cap in [1usize, 3, 8192] {
                n += 1;
                if let Err(e) = read_all(fmt, inp, cap) {
                    if failed_fmt.insert(format!("{}:{}", fmt, e)) {
                        fails.push(case_json(&format!("io_{}_reader", fmt), &e, fmt, inp, cap));
                    }
                }
                if let Err(e) = read_past_errors(fmt, inp, cap, 6) {
                    if failed_fmt.insert(format!("{}:{}", fmt, e)) {
                        fails.push(case_json(&format!("io_{}_reader", fmt), &e, fmt, inp, cap));
                    }
                }
            }
        }
    }
    (n, fails)
}

/// C14: well-formed files load completely and identically under every chunking
pub fn sweep_c14(tier: &str, seed: u64, only: &str) -> (usize, Vec<String>) {
    let mut rng = Rng::new(seed ^ 0xc14);
    let mut n = 0usize;
    let mut fails: Vec<String> = Vec::new();
    let reps = if tier == "thorough" { 40 } else { 6 };
    for fmt in FORMATS {
        if !only.is_empty() && !only.contains(fmt) { continue; }
        let mut bad = false;
        for rep in 0..reps {
            let count = if rep < 3 { 60 + rng.below(240) } else { 1 + rng.below(8) };      // long files (well past 4 KiB): the internal buffer is compacted many times, also on the last record
            let (text, want) = gen_file(fmt, &mut rng, count);
            let b = text.as_bytes();
            let mut caps = vec![1usize, 2, 3, 7, 64, b.len().max(1), b.len() + 10];
            caps.push(1 + rng.below(b.len().max(1)));
            for cap in caps {
                n += 1;
                let res = read_all(fmt, b, cap);
                let msg = match res {
                    Err(e) => Some(e),
                    Ok((k, err, sigs)) => {
                        if err { Some(format!("error after {} of {} records", k, want.len())) }
                        else if k != want.len() { Some(format!("{} records read, {} written", k, want.len())) }
                        else { sigs.iter().zip(want.iter()).position(|(a, b)| a != b).map(|i| format!("record {} differs: got {} want {}", i, sigs[i], want[i])) }
                    }
                };
                if let Some(m) = msg {
                    if !bad { fails.push(case_json(&format!("io_{}_reader", fmt), &m.replace('"', "'"), fmt, b, cap)); }
                    bad = true;
                }
            }
        }
    }
    // every PREFIX (k = 1..N records) of one long record list: whatever internal threshold a reader has (buffer compaction after so
    // many bytes, ...), some k makes it fire exactly on the last record; exactly k records and then the end of input are expected
    for fmt in FORMATS {
        if !only.is_empty() && !only.contains(fmt) { continue; }
        let total = if tier == "thorough" { 400 } else { 160 };
        let mut recs: Vec<(String, String)> = Vec::new();
        while recs.len() < total {
            let (t, sg) = gen_file(fmt, &mut rng, 1);
            if t.starts_with("VV") || sg.len() != 1 || t.len() > 400 { continue; }      // no version header in the middle of a file; keep records small
            recs.push((t, sg[0].clone()));
        }
        let mut text = String::new();
        let mut bad = false;
        for k in 1..=total {
            text.push_str(&recs[k - 1].0);
            let b = text.as_bytes();
            for cap in [8192usize, 61] {
                n += 1;
                let msg = match read_all(fmt, b, cap) {
                    Err(e) => Some(e),
                    Ok((got, err, sigs)) => {
                        if err { Some(format!("error after {} of {} records (a list of {} records, {} bytes)", got, k, k, b.len())) }
                        else if got != k { Some(format!("{} records read, {} written", got, k)) }
                        else { (0..k).find(|&i| sigs[i] != recs[i].1).map(|i| format!("record {} differs", i)) }
                    }
                };
                if let Some(m) = msg { if !bad { fails.push(case_json(&format!("io_{}_reader", fmt), &m.replace('"', "'"), fmt, b, cap)); } bad = true; }
            }
            if bad { break; }
        }
    }
    (n, fails)
}

pub fn replay(unit: &str, fmt: &str, hex: &str, cap: usize) -> Result<(), String> {
    let bytes: Vec<u8> = (0..hex.len() / 2).map(|i| u8::from_str_radix(&hex[2 * i..2 * i + 2], 16).unwrap()).collect();
    let _ = unit;
    read_all(fmt, &bytes, cap).map(|_| ())?;
    read_past_errors(fmt, &bytes, cap, 6)
}
