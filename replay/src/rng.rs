/// xorshift64* - deterministic, seedable, no dependency
pub struct Rng(u64);
impl Rng {
    pub fn new(seed: u64) -> Self { Rng(seed.wrapping_mul(0x9E3779B97F4A7C15) | 1) }
    pub fn next(&mut self) -> u64 {
        let mut x = self.0;
        x ^= x >> 12; x ^= x << 25; x ^= x >> 27;
        self.0 = x;
        x.wrapping_mul(0x2545F4914F6CDD1D)
    }
    pub fn below(&mut self, n: usize) -> usize { (self.next() % (n as u64)) as usize }
}
