// ===== prelude/core.rs : stand-in environment shared by all groups (TRUSTED: every ASSUME(..) below) =====
#![feature(allocator_api)]
#![allow(unused_imports, dead_code, unused_variables, unused_mut, non_snake_case)]
use vstd::prelude::*;
use vstd::std_specs::ops::*;
use vstd::std_specs::core::IndexSpecImpl;
use vstd::std_specs::cmp::*;
use std::ops::{Index, IndexMut, Range};
verus! {

// ASSUME(A-TN1): a typenum `Unsigned` is a type-level natural with a constant `USIZE`;
// `PositiveLength`/`StrictlyPositive`/`NonZero` types have USIZE >= 1.
pub trait Unsigned: Sized { const USIZE: usize; }
pub trait PositiveLength: Unsigned {
    proof fn positive() ensures Self::USIZE >= 1;
}

// ASSUME(A-ABC1): shape of `abc::Symbol` / `abc::Alphabet` (abc.rs): `as_index` is a pure function of the
// symbol with values below K; `Default::default()` is the wildcard; `symbols()[k].as_index() == k`.
// These facts are proved for the two real alphabets by the complete Kani harnesses of C05.
// ASSUME(A-ME1): `dense::MatrixElement` = `Default + Copy`; `default_value()` names the value `Default::default()` returns
// (proved, not assumed, for the concrete instance u8 below).
pub trait MatrixElement: Copy + Default {
    spec fn default_value() -> Self;
    proof fn default_ok()
        ensures forall|r: Self| call_ensures(<Self as Default>::default, (), r) ==> r == Self::default_value();
}
impl MatrixElement for u8 {
    open spec fn default_value() -> u8 { 0 }
    proof fn default_ok() {}
}
impl MatrixElement for f32 {
    open spec fn default_value() -> f32 { 0.0f32 }
    proof fn default_ok() {}
}
impl MatrixElement for usize {
    open spec fn default_value() -> usize { 0 }
    proof fn default_ok() {}
}
impl MatrixElement for u32 {
    open spec fn default_value() -> u32 { 0 }
    proof fn default_ok() {}
}

pub trait Symbol: MatrixElement + PartialEq + Sized {
    spec fn idx(&self) -> usize;
    // derived `PartialEq` on a field-less enum is structural equality
    proof fn eq_ok(a: Self, b: Self) ensures Self::obeys_eq_spec(), a.eq_spec(&b) == (a == b);
    spec fn ascii(&self) -> u8;
    spec fn valid_ascii(c: u8) -> bool;
    spec fn of_ascii(c: u8) -> Self;
    fn as_index(&self) -> (r: usize) ensures r == self.idx();
    fn as_ascii(&self) -> (r: u8) ensures r == self.ascii();
    fn from_ascii(c: u8) -> (r: Result<Self, InvalidSymbol>)
        ensures
            Self::valid_ascii(c) ==> r == Ok::<Self, InvalidSymbol>(Self::of_ascii(c)),
            !Self::valid_ascii(c) ==> r == Err::<Self, InvalidSymbol>(InvalidSymbol(c as char));
}
/// the wildcard symbol (`Default::default()` of the symbol type: N / X)
pub open spec fn wild<S: Symbol>() -> S { S::default_value() }

pub trait Alphabet: Sized {
    type Symbol: Symbol + 'static;
    type K: Unsigned;
    proof fn idx_bound(s: Self::Symbol) ensures s.idx() < Self::K::USIZE;
    proof fn idx_injective(s: Self::Symbol, t: Self::Symbol) ensures s.idx() == t.idx() ==> s == t;
    spec fn symbols_spec() -> Seq<Self::Symbol>;
    proof fn symbols_ok()
        ensures
            Self::symbols_spec().len() == Self::K::USIZE,
            forall|k: int| 0 <= k < Self::K::USIZE ==> (#[trigger] Self::symbols_spec()[k]).idx() == k;
    fn default_symbol() -> (r: Self::Symbol) ensures r == wild::<Self::Symbol>();
    fn symbols() -> (r: &'static [Self::Symbol]) ensures r@ == Self::symbols_spec();
}

#[derive(Debug)]
pub struct InvalidSymbol(pub char);
#[derive(Debug)]
pub struct InvalidData;

// ASSUME(A-GA1): `generic_array::GenericArray<T, N>` behaves as `[T; N::USIZE]`.
#[verifier::external_body]
#[verifier::accept_recursive_types(T)]
#[verifier::accept_recursive_types(N)]
pub struct GenericArray<T, N> { v: Vec<T>, n: core::marker::PhantomData<N> }
impl<T, N: Unsigned> View for GenericArray<T, N> {
    type V = Seq<T>;
    uninterp spec fn view(&self) -> Seq<T>;
}
// ASSUME(A-GA1)
pub broadcast proof fn axiom_ga_len<T, N: Unsigned>(a: &GenericArray<T, N>)
    ensures #[trigger] a@.len() == N::USIZE
{ admit(); }
impl<T, N: Unsigned> GenericArray<T, N> {
    // ASSUME(A-GA1)
    #[verifier::external_body]
    pub fn as_slice(&self) -> (r: &[T]) ensures r@ == self@ { unimplemented!() }
    // ASSUME(A-GA1)
    #[verifier::external_body]
    pub fn as_mut_slice(&mut self) -> (r: &mut [T])
        ensures r@ == old(self)@, final(self)@ == final(r)@
    { unimplemented!() }
}

impl<T: MatrixElement, N: Unsigned> GenericArray<T, N> {
    // ASSUME(A-GA1): `GenericArray::default()` is `[T::default(); N]`
    #[verifier::external_body]
    pub fn default() -> (r: Self)
        ensures forall|j: int| 0 <= j < N::USIZE ==> (#[trigger] r@[j]) == T::default_value()
    { unimplemented!() }
}
impl<T, N: Unsigned> IndexSpecImpl<usize> for GenericArray<T, N> {
    open spec fn index_req(&self, i: &usize) -> bool { *i < N::USIZE }
}
impl<T, N: Unsigned> Index<usize> for GenericArray<T, N> {
    type Output = T;
    // ASSUME(A-GA1)
    #[verifier::external_body]
    fn index(&self, index: usize) -> (r: &T) ensures *r == self@[index as int] { unimplemented!() }
}
impl<T, N: Unsigned> IndexMut<usize> for GenericArray<T, N> {
    // ASSUME(A-GA1)
    #[verifier::external_body]
    fn index_mut(&mut self, index: usize) -> (r: &mut T)
        ensures *r == old(self)@[index as int], final(self)@ == old(self)@.update(index as int, *final(r))
    { unimplemented!() }
}

// ASSUME(A-V1): `Vec::resize_with(n, f)` truncates or appends values produced by `f`
pub assume_specification<T, A: core::alloc::Allocator, F: FnMut() -> T>[ Vec::<T, A>::resize_with ](v: &mut Vec<T, A>, new_len: usize, f: F)
    ensures
        final(v)@.len() == new_len,
        forall|i: int| 0 <= i < new_len && i < old(v)@.len() ==> final(v)@[i] == old(v)@[i],
        forall|i: int| old(v)@.len() <= i < new_len ==> call_ensures(f, (), #[trigger] final(v)@[i]);

// ASSUME(A-V1): `Vec::capacity` has no observable effect on contents (no postcondition is assumed)
pub assume_specification<T, A: core::alloc::Allocator>[ Vec::<T, A>::capacity ](v: &Vec<T, A>) -> usize;

// ---- the real `dense::DenseMatrix` data layout (dense.rs), derives and repr(align) dropped ----
pub struct Row<T, C> { pub a: GenericArray<T, C> }
// ASSUME(A-D1): `#[derive(Default)]` on `Row` is field-wise
impl<T: MatrixElement, C: Unsigned> Default for Row<T, C> {
    fn default() -> (r: Self)
        ensures forall|j: int| 0 <= j < C::USIZE ==> (#[trigger] r.a@[j]) == T::default_value()
    { Row { a: GenericArray::default() } }
}
pub struct DenseMatrix<T, C> { pub data: Vec<Row<T, C>>, pub rows: usize }
#[derive(Clone, Copy)]
pub struct MatrixCoordinates { pub row: usize, pub col: usize }

impl<T, C: Unsigned> View for DenseMatrix<T, C> {
    type V = Seq<Seq<T>>;
    open spec fn view(&self) -> Seq<Seq<T>> { Seq::new(self.data@.len(), |i: int| self.data@[i].a@) }
}
impl<T, C: Unsigned> DenseMatrix<T, C> {
    /// representation invariant of dense.rs: the `rows` field mirrors the vector length
    pub open spec fn wf(&self) -> bool {
        &&& self@.len() == self.rows
        &&& forall|i: int| 0 <= i < self@.len() ==> (#[trigger] self@[i]).len() == C::USIZE
    }
}
pub broadcast proof fn lemma_dm_row_len<T, C: Unsigned>(m: &DenseMatrix<T, C>, i: int)
    requires 0 <= i < m@.len()
    ensures (#[trigger] m@[i]).len() == C::USIZE
{ axiom_ga_len(&m.data@[i].a); }

impl<T: MatrixElement, C: Unsigned> IndexSpecImpl<usize> for DenseMatrix<T, C> {
    open spec fn index_req(&self, i: &usize) -> bool { *i < self@.len() }
}
impl<T: MatrixElement, C: Unsigned> IndexSpecImpl<MatrixCoordinates> for DenseMatrix<T, C> {
    open spec fn index_req(&self, i: &MatrixCoordinates) -> bool { i.row < self@.len() && i.col < C::USIZE }
}

// ASSUME(A-W1): spec-attachment wrapper, body is the std call itself (`r.len()` of ExactSizeIterator for Range<usize>)
#[verifier::external_body]
pub fn range_len(r: &Range<usize>) -> (n: usize)
    ensures n == (if r.start < r.end { r.end - r.start } else { 0 })
{ r.len() }

// ASSUME(A-W2): `Range<usize>::is_empty()` is `!(start < end)`
pub uninterp spec fn range_is_empty_spec<Idx>(r: &Range<Idx>) -> bool;
pub assume_specification<Idx: core::cmp::PartialOrd<Idx> + core::cmp::PartialOrd<Idx>>[ Range::<Idx>::is_empty ](r: &Range<Idx>) -> (b: bool)
    ensures b == range_is_empty_spec(r);
// ASSUME(A-W2)
pub broadcast proof fn axiom_range_is_empty_usize(r: &Range<usize>)
    ensures #[trigger] range_is_empty_spec(r) == !(r.start < r.end)
{ admit(); }


// ASSUME(A-W4b): spec-attachment wrapper for the std `debug_assert*!` macros (rule DA of the extractor): the macro panics (debug builds)
// unless its condition holds, so "no panic" is the precondition `cond`; in release builds the macro is empty
#[verifier::external_body]
pub fn debug_assert_holds(cond: bool)
    requires cond
{ debug_assert!(cond); }
} // verus!
