// ===== prelude/io_line_shell.rs : std::io / String / nom shells for the line-oriented readers (transfac, uniprobe) (C14, C15) =====
#![feature(allocator_api)]
#![allow(unused_imports, dead_code, unused_variables, unused_mut, non_snake_case)]
use vstd::prelude::*;
use core::marker::PhantomData;
verus! {
pub struct IoError;
pub struct NomErr;
pub struct Error;
// ASSUME(A-ERR): the `From<..> for Error` conversions of error.rs never panic for io errors; for nom errors they panic only
// on `nom::Err::Incomplete` (unreachable!()), which complete-flavour parsers never produce (checked natively: C15 sweep)
impl From<IoError> for Error { #[verifier::external_body] fn from(e: IoError) -> Error { Error } }
impl From<NomErr> for Error { #[verifier::external_body] fn from(e: NomErr) -> Error { Error } }

/// length of the line `read_line` takes from a stream: through the first '\n', or everything
pub open spec fn line_len(s: Seq<u8>) -> int
    decreases s.len()
{
    if s.len() == 0 { 0 } else if s[0] == 0x0Au8 { 1 } else { 1 + line_len(s.skip(1)) }
}
pub proof fn lemma_line_len(s: Seq<u8>)
    ensures 0 <= line_len(s) <= s.len(), s.len() > 0 ==> line_len(s) > 0,
    decreases s.len()
{
    if s.len() > 0 && s[0] != 0x0Au8 { lemma_line_len(s.skip(1)); }
}
/// UTF-8 continuation byte (10xxxxxx): `str::is_char_boundary(i)` is `i == 0 || i == len || !is_cont(bytes[i])`
pub open spec fn is_cont(b: u8) -> bool { 0x80u8 <= b < 0xC0u8 }
pub open spec fn is_boundary(s: Seq<u8>, i: int) -> bool { i == 0 || i == s.len() || (0 < i < s.len() && !is_cont(s[i])) }

/// the bytes held by a `String` / `str`
pub uninterp spec fn string_bytes(s: &String) -> Seq<u8>;
pub uninterp spec fn str_bytes(s: &str) -> Seq<u8>;

// ASSUME(A-IO1L): `BufRead::read_line(buf)` takes the bytes of the underlying stream up to and including the next '\n' (or to
// end of input) - whatever the sizes of the chunks the stream delivers them in (chunk-independence is a property of std, assumed) -
// and, if they are valid UTF-8, appends them to `buf` and returns their number. If they are not valid UTF-8 it returns an error,
// leaves `buf` unchanged, and the stream has still advanced. ASSUME(A-UTF8): a valid UTF-8 line does not start with a continuation
// byte. (ASSUME(A-IO0): no other I/O error on in-memory streams.)
pub trait BufRead: Sized {
    spec fn stream(&self) -> Seq<u8>;
    fn read_line(&mut self, buf: &mut String) -> (r: Result<usize, IoError>)
        ensures
            r is Ok ==> {
                &&& r->Ok_0 == line_len(old(self).stream())
                &&& string_bytes(final(buf)) == string_bytes(old(buf)) + old(self).stream().take(r->Ok_0 as int)
                &&& final(self).stream() == old(self).stream().skip(r->Ok_0 as int)
                &&& r->Ok_0 > 0 ==> !is_cont(old(self).stream()[0])
            },
            r is Err ==> {
                &&& string_bytes(final(buf)) == string_bytes(old(buf))
                &&& old(self).stream().len() > 0
                &&& exists|k: int| 0 < k <= old(self).stream().len() && final(self).stream() == old(self).stream().skip(k)
            },
        ;
}

// ASSUME(A-S1): String::new / clear / is_empty / len are about the byte string; a String holds at most isize::MAX bytes
#[verifier::external_body]
pub fn string_new() -> (s: String) ensures string_bytes(&s).len() == 0 { String::new() }
#[verifier::external_body]
pub fn string_clear(s: &mut String) ensures string_bytes(final(s)).len() == 0 { s.clear() }
#[verifier::external_body]
pub fn string_is_empty(s: &String) -> (b: bool) ensures b == (string_bytes(s).len() == 0) { s.is_empty() }
pub proof fn axiom_string_len_bound(s: &String) ensures string_bytes(s).len() <= isize::MAX { admit(); }

pub open spec fn starts_with2(s: Seq<u8>, a: u8, b: u8) -> bool { s.len() >= 2 && s[0] == a && s[1] == b }

// ASSUME(A-W6): spec-attachment wrappers; each body is the std expression itself. Slicing a String at a byte offset PANICS unless
// the offset is at most the length and on a character boundary: that is the precondition.
#[verifier::external_body]
pub fn tail_starts_with_slashes(s: &String, from: usize) -> (b: bool)
    requires from <= string_bytes(s).len(), is_boundary(string_bytes(s), from as int),
    ensures b == starts_with2(string_bytes(s).skip(from as int), 0x2Fu8, 0x2Fu8),
{ s[from..].starts_with("//") }
#[verifier::external_body]
pub fn starts_with_vv(s: &String) -> (b: bool)
    ensures b == starts_with2(string_bytes(s), 0x56u8, 0x56u8),
{ s.starts_with("VV") }
#[verifier::external_body]
pub fn trimmed_string(s: &str) -> (r: String) { s.trim().to_string() }
/// `text.trim().is_empty()`: a property of the bytes (uninterpreted)
pub uninterp spec fn blank(l: Seq<u8>) -> bool;
#[verifier::external_body]
pub fn str_trim_is_empty(s: &String) -> (b: bool)
    ensures b == blank(string_bytes(s))
{ s.trim().is_empty() }
#[verifier::external_body]
pub fn str_to_string(s: &str) -> (r: String) ensures string_bytes(&r) == str_bytes(s) { s.to_string() }
} // verus!
