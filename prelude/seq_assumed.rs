// ===== prelude/seq_assumed.rs : StripedSequence operations seen through their contracts (each proved in group `seq`) =====
verus! {
impl<A: Alphabet, C: PositiveLength> StripedSequence<A, C> {
//@assume seq_new
//@assume seq_len
//@assume seq_is_empty
//@assume seq_wrap
//@assume seq_matrix
//@assume seq_into_matrix
//@assume seq_configure_wrap
//@assume seq_count_symbol
//@assume seq_count_symbols
    // the real `AsRef<StripedSequence<A, C>> for StripedSequence<A, C>` returns `self`; an inherent method of the same
    // name keeps `seq.as_ref()` in extracted bodies verbatim (ASSUME(A-STD1): identity AsRef)
    #[verifier::external_body]
    pub fn as_ref(&self) -> (r: &Self) ensures r == self { self }
}
impl<A: Alphabet, C: PositiveLength> IndexSpecImpl<usize> for StripedSequence<A, C> {
    /// weakest precondition of the indexing code: no division by zero, cell inside the matrix
    open spec fn index_req(&self, i: &usize) -> bool {
        &&& self.data.wf() && self.wrap <= self.data@.len()
        &&& self.seq_rows() > 0
        &&& *i as int / self.seq_rows() < C::USIZE
    }
}
impl<A: Alphabet, C: PositiveLength> Index<usize> for StripedSequence<A, C> {
    type Output = A::Symbol;
//@assume seq_index
}
impl<A: Alphabet, C: PositiveLength> Default for StripedSequence<A, C> {
//@assume seq_default
}
} // verus!
