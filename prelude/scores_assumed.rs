// ===== prelude/scores_assumed.rs : StripedScores operations seen through their contracts (each proved in group `scores`) =====
verus! {
impl<T: MatrixElement, C: PositiveLength> StripedScores<T, C> {
//@assume scores_empty
//@assume scores_max_index
//@assume scores_is_empty
//@assume scores_matrix
//@assume scores_matrix_mut
//@assume scores_resize
//@assume scores_offset
//@assume scores_iter
}
impl<T: MatrixElement, C: PositiveLength> Index<usize> for StripedScores<T, C> {
    type Output = T;
//@assume scores_index
}
} // verus!
