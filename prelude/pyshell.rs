// ===== prelude/pyshell.rs : PyO3 / binding-enum shells for the pure logic of lightmotif-py (C18) =====
#![allow(unused_imports, dead_code, unused_variables, unused_mut, non_snake_case, non_camel_case_types)]
use vstd::prelude::*;
verus! {
// the size of f32 is checked by rustc for this target at erasure time
global layout f32 is size == 4, align == 4;

pub type Py_ssize_t = isize;
#[derive(Clone, Copy)]
pub struct Python;
pub struct PyErr { pub index_error: bool }
pub type PyResult<T> = Result<T, PyErr>;
pub struct PyIndexError;
impl PyIndexError {
    // ASSUME(A-PY0): `PyIndexError::new_err(arg)` builds a Python IndexError (never panics)
    #[verifier::external_body]
    pub fn new_err<T>(arg: T) -> (e: PyErr) ensures e.index_error { unimplemented!() }
}
/// a Python object standing for logical row `row` of a matrix
pub struct PyObject { pub row: usize }
/// `&[T]` row of the backing matrix (what `data.get(i)` returns)
pub struct RowRef { pub row: usize }
impl RowRef {
    // ASSUME(A-PY0): `to_object` converts the row it is given
    #[verifier::external_body]
    pub fn to_object(&self, py: Python) -> (o: PyObject) ensures o.row == self.row { unimplemented!() }
}

/// shell for the `{Count,Weight,Scoring}MatrixData` / `StripedSequenceData` enums seen through `impl_matrix_methods!`
/// (`apply_self!(self, |x| x.matrix().rows())` etc.): a rows x cols table with a row stride
pub struct MatrixData { pub nrows: usize, pub ncols: usize, pub nstride: usize }
impl MatrixData {
    // ASSUME(A-PY2): accessors of the data enums forward to dense::DenseMatrix::{rows, columns, stride} (contracts: C19);
    // a Vec-backed matrix has at most isize::MAX rows and stride * size_of::<T>() * rows bytes fit isize (A-MEM)
    #[verifier::external_body]
    pub fn rows(&self) -> (r: usize) ensures r == self.nrows, r <= isize::MAX { unimplemented!() }
    #[verifier::external_body]
    pub fn columns(&self) -> (r: usize) ensures r == self.ncols, r <= self.nstride { unimplemented!() }
    #[verifier::external_body]
    pub fn stride(&self) -> (r: usize) ensures r == self.nstride, r * 4 <= isize::MAX { unimplemented!() }
    /// `data.get(i)` indexes the matrix: out-of-range is a Rust panic, hence the precondition
    #[verifier::external_body]
    pub fn get(&self, index: usize) -> (r: RowRef) requires index < self.nrows ensures r.row == index { unimplemented!() }
    /// `D: Into<...Data>` instantiated at the data type itself (S1)
    pub fn into(self) -> (r: Self) ensures r == self { self }
}

/// shell for `EncodedSequenceData`
pub struct SeqData { pub syms: Seq<u8> }
impl SeqData {
    #[verifier::external_body]
    pub fn len(&self) -> (r: usize) ensures r == self.syms.len(), r <= isize::MAX { unimplemented!() }
    #[verifier::external_body]
    pub fn get(&self, index: usize) -> (r: u8) requires index < self.syms.len() ensures r == self.syms[index as int] { unimplemented!() }
}

/// shell for core `scores::StripedScores<f32>` as the binding uses it
pub struct CoreScores { pub nrows: usize, pub ncols: usize, pub nstride: usize, pub max_index: usize }
pub struct CoreScoresMatrix { pub nrows: usize, pub ncols: usize, pub nstride: usize }
impl CoreScores {
    #[verifier::external_body]
    pub fn max_index(&self) -> (r: usize) ensures r == self.max_index { unimplemented!() }
    #[verifier::external_body]
    pub fn matrix(&self) -> (r: CoreScoresMatrix) ensures r.nrows == self.nrows, r.ncols == self.ncols, r.nstride == self.nstride { unimplemented!() }
    /// contract of `Index<usize> for StripedScores` (proved in group `scores`): needs rows > 0 and index / rows < columns
    #[verifier::external_body]
    pub fn index_at(&self, index: usize) -> (r: f32) requires self.nrows > 0, (index as int) / (self.nrows as int) < self.ncols { unimplemented!() }
}
impl CoreScoresMatrix {
    #[verifier::external_body]
    pub fn rows(&self) -> (r: usize) ensures r == self.nrows, r <= isize::MAX { unimplemented!() }
    #[verifier::external_body]
    pub fn columns(&self) -> (r: usize) ensures r == self.ncols, r <= isize::MAX { unimplemented!() }
    #[verifier::external_body]
    pub fn stride(&self) -> (r: usize) ensures r == self.nstride, r * 4 <= isize::MAX { unimplemented!() }
}
} // verus!
