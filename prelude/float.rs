// ===== prelude/float.rs : what is assumed about IEEE floats (Verus leaves f32 arithmetic uninterpreted) =====
verus! {
// ASSUME(A-F0): f32 arithmetic operators never panic
pub broadcast proof fn axiom_f32_add_total(a: f32, b: f32) ensures #[trigger] a.add_req(b) { admit(); }
// ASSUME(A-F0)
pub broadcast proof fn axiom_f32_sub_total(a: f32, b: f32) ensures #[trigger] a.sub_req(b) { admit(); }
// ASSUME(A-F0)
pub broadcast proof fn axiom_f32_mul_total(a: f32, b: f32) ensures #[trigger] a.mul_req(b) { admit(); }
// ASSUME(A-F0)
pub broadcast proof fn axiom_f32_div_total(a: f32, b: f32) ensures #[trigger] a.div_req(b) { admit(); }
// ASSUME(A-F1): f32 `+` is a function of its operands (`add_spec` names it; nothing numeric is assumed about it)
pub broadcast proof fn axiom_f32_add_fn() ensures #[trigger] <f32 as AddSpec<f32>>::obeys_add_spec() { admit(); }
// ASSUME(A-F1)
pub broadcast proof fn axiom_f32_sub_fn() ensures #[trigger] <f32 as SubSpec<f32>>::obeys_sub_spec() { admit(); }
// ASSUME(A-F1)
pub broadcast proof fn axiom_f32_mul_fn() ensures #[trigger] <f32 as MulSpec<f32>>::obeys_mul_spec() { admit(); }
// ASSUME(A-F1)
pub broadcast proof fn axiom_f32_div_fn() ensures #[trigger] <f32 as DivSpec<f32>>::obeys_div_spec() { admit(); }

// ASSUME(A-F2): the comparison operators of f32 are the ones `partial_cmp` induces
pub proof fn axiom_f32_cmp_fn() ensures <f32 as PartialOrdSpec>::obeys_partial_cmp_spec() { admit(); }

// ASSUME(A-F2): `==` on f32 is the function `eq_spec`, and IEEE equality implies `>=`
pub proof fn axiom_f32_eq_fn() ensures <f32 as PartialEqSpec>::obeys_eq_spec() { admit(); }
// ASSUME(A-F2)
pub proof fn axiom_f32_eq_implies_ge(a: f32, b: f32)
    ensures a.eq_spec(&b) ==> (a.partial_cmp_spec(&b) == Some(core::cmp::Ordering::Equal))
{ admit(); }

// ASSUME(A-F2): comparability of two floats is symmetric
pub proof fn axiom_f32_cmp_dual(a: f32, b: f32)
    ensures a.partial_cmp_spec(&b) is Some <==> b.partial_cmp_spec(&a) is Some
{ admit(); }

pub open spec fn fadd(a: f32, b: f32) -> f32 { a.add_spec(b) }
pub open spec fn fsub(a: f32, b: f32) -> f32 { a.sub_spec(b) }
pub open spec fn fmul(a: f32, b: f32) -> f32 { a.mul_spec(b) }
pub open spec fn fdiv(a: f32, b: f32) -> f32 { a.div_spec(b) }
// ASSUME(A-F0): `f32 += f32` never panics and is a function of its operands
pub proof fn f32_add_assign_ok() ensures <f32 as vstd::std_specs::ops::AddAssignSpec<f32>>::obeys_add_assign_spec(), forall|a: f32, b: f32| a.add_assign_req(b) { admit(); }
} // verus!
