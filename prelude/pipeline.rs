// ===== prelude/pipeline.rs : `pli::Pipeline` shell and std stand-ins used by the pli units =====
verus! {
// stand-in for `seq::DEFAULT_EXTRA_ROWS` (only influences reserved capacity, which no contract observes)
pub mod seq { pub const DEFAULT_EXTRA_ROWS: usize = 32; }

// ASSUME(A-STD2): `std::mem::take(x)` returns the old value and leaves `Default::default()` behind
pub assume_specification<T: core::default::Default>[ core::mem::take ](v: &mut T) -> (r: T)
    ensures r == *old(v), call_ensures(T::default, (), *final(v));

pub struct Generic;
pub struct Pipeline<A: Alphabet, B> { pub alphabet: core::marker::PhantomData<A>, pub backend: B }

// ASSUME(A-STD1): `AsRef<[T]>::as_ref` is a pure view of the argument as a slice
pub trait AsRefSlice<T>: Sized {
    spec fn slice_view(&self) -> Seq<T>;
    fn as_ref(&self) -> (r: &[T]) ensures r@ == self.slice_view();
}
impl<'a, T> AsRefSlice<T> for &'a [T] {
    open spec fn slice_view(&self) -> Seq<T> { self@ }
    fn as_ref(&self) -> (r: &[T]) { *self }
}
impl<'a, T> AsRefSlice<T> for &'a Vec<T> {
    open spec fn slice_view(&self) -> Seq<T> { self@ }
    fn as_ref(&self) -> (r: &[T]) { self.as_slice() }
}

// ASSUME(A-STD1): `AsRef<StripedSequence<A, C>>` / `AsRef<DenseMatrix<T, K>>` are pure views (identity or field access)
pub trait AsRefSeq<A: Alphabet, C: PositiveLength>: Sized {
    spec fn seq_view(&self) -> StripedSequence<A, C>;
    fn as_ref(&self) -> (r: &StripedSequence<A, C>) ensures *r == self.seq_view();
}
// mirrors `impl AsRef<StripedSequence<A, C>> for StripedSequence<A, C>` (seq.rs) and std's blanket `impl AsRef<U> for &T`
impl<A: Alphabet, C: PositiveLength> AsRefSeq<A, C> for StripedSequence<A, C> {
    open spec fn seq_view(&self) -> StripedSequence<A, C> { *self }
    fn as_ref(&self) -> (r: &StripedSequence<A, C>) { self }
}
impl<'a, A: Alphabet, C: PositiveLength, S: AsRefSeq<A, C>> AsRefSeq<A, C> for &'a S {
    open spec fn seq_view(&self) -> StripedSequence<A, C> { (**self).seq_view() }
    fn as_ref(&self) -> (r: &StripedSequence<A, C>) { (**self).as_ref() }
}
pub trait AsRefMat<T: MatrixElement, K: Unsigned>: Sized {
    spec fn mat_view(&self) -> DenseMatrix<T, K>;
    fn as_ref(&self) -> (r: &DenseMatrix<T, K>) ensures *r == self.mat_view();
}
impl<T: MatrixElement, K: Unsigned> AsRefMat<T, K> for DenseMatrix<T, K> {
    open spec fn mat_view(&self) -> DenseMatrix<T, K> { *self }
    fn as_ref(&self) -> (r: &DenseMatrix<T, K>) { self }
}
impl<'a, T: MatrixElement, K: Unsigned, M: AsRefMat<T, K>> AsRefMat<T, K> for &'a M {
    open spec fn mat_view(&self) -> DenseMatrix<T, K> { (**self).mat_view() }
    fn as_ref(&self) -> (r: &DenseMatrix<T, K>) { (**self).as_ref() }
}
} // verus!
