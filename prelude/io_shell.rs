// ===== prelude/io_shell.rs : std::io / nom / error shells for the reader layer of lightmotif-io (C14, C15) =====
#![feature(allocator_api)]
#![allow(unused_imports, dead_code, unused_variables, unused_mut, non_snake_case)]
use vstd::prelude::*;
verus! {
pub struct IoError;
pub struct NomErr;
pub struct Error;
// ASSUME(A-ERR): the `From<..> for Error` conversions of error.rs never panic for io errors; for nom errors they panic only
// on `nom::Err::Incomplete` (unreachable!()), which complete-flavour parsers never produce (checked natively: C15 sweep)
impl From<IoError> for Error { #[verifier::external_body] fn from(e: IoError) -> Error { Error } }
impl From<NomErr> for Error { #[verifier::external_body] fn from(e: NomErr) -> Error { Error } }

/// length of the chunk `read_until(byte)` takes from a stream: through the first `byte`, or everything
pub open spec fn chunk_len(s: Seq<u8>, byte: u8) -> int
    decreases s.len()
{
    if s.len() == 0 { 0 } else if s[0] == byte { 1 } else { 1 + chunk_len(s.skip(1), byte) }
}

// ASSUME(A-IO1): `BufRead::read_until(byte, buf)` appends the bytes of the underlying stream up to and including the next
// `byte` (or to end of input) and returns their number - whatever the sizes of the chunks the stream delivers them in
// (this is where chunk-independence comes from: it is a property of std, assumed). On error `buf` keeps what was read.
pub trait BufRead: Sized {
    spec fn stream(&self) -> Seq<u8>;
    fn read_until(&mut self, byte: u8, buf: &mut Vec<u8>) -> (r: Result<usize, IoError>)
        ensures
            // the property quantifies over byte strings (in-memory streams): reads do not fail (A-IO0)
            r is Ok,
            r is Ok ==> {
                &&& r->Ok_0 == chunk_len(old(self).stream(), byte)
                &&& forall|i: int| 0 <= i < r->Ok_0 - 1 ==> old(self).stream()[i] != byte
                &&& r->Ok_0 <= old(self).stream().len()
                &&& final(buf)@ == old(buf)@ + old(self).stream().take(r->Ok_0 as int)
                &&& final(self).stream() == old(self).stream().skip(r->Ok_0 as int)
                // the chunk ends with the delimiter unless the stream is exhausted
                &&& (r->Ok_0 > 0 && old(self).stream()[r->Ok_0 - 1] != byte) ==> final(self).stream().len() == 0
                &&& r->Ok_0 == 0 ==> old(self).stream().len() == 0
            },
            r is Err ==> final(buf)@.len() >= old(buf)@.len(),
        ;
}

// ASSUME(A-IO2): `std::str::from_utf8` returns a view of the same bytes
#[verifier::external_type_specification]
#[verifier::external_body]
pub struct ExUtf8Error(core::str::Utf8Error);
pub uninterp spec fn str_bytes(s: &str) -> Seq<u8>;
pub assume_specification<'a>[ core::str::from_utf8 ](v: &'a [u8]) -> (r: Result<&'a str, core::str::Utf8Error>)
    ensures r is Ok ==> str_bytes(r->Ok_0) == v@;
// ASSUME(A-W5): spec-attachment wrappers; each body is the std call itself
#[verifier::external_body]
pub fn str_byte_len(s: &str) -> (n: usize) ensures n == str_bytes(s).len() { s.len() }
#[verifier::external_body]
pub fn str_trim_is_empty(s: &str) -> (b: bool) { s.trim().is_empty() }
#[verifier::external_body]
pub fn decoding_error() -> Error { Error }
// ASSUME(A-V3): `v.copy_within(start.., 0)` moves the tail of the vector to the front (length unchanged)
#[verifier::external_body]
pub fn vec_copy_within_from(v: &mut Vec<u8>, start: usize)
    requires start <= old(v)@.len()
    ensures final(v)@.len() == old(v)@.len(), final(v)@.take(old(v)@.len() - start) == old(v)@.skip(start as int)
{ v.copy_within(start.., 0); }

// ASSUME(A-V4): a `Vec<u8>` never holds more than isize::MAX bytes (allocation size limit of Rust)
pub proof fn axiom_vec_u8_len_bound(v: &Vec<u8>) ensures v@.len() <= isize::MAX { admit(); }

// ASSUME(A-V1)
pub assume_specification<T, A: core::alloc::Allocator>[ Vec::<T, A>::capacity ](v: &Vec<T, A>) -> usize;
pub assume_specification<T, E>[ Result::<T, E>::unwrap_or ](r: Result<T, E>, d: T) -> (o: T)
    ensures o == (if r is Ok { r->Ok_0 } else { d });

/// a parsed record; `src` (ghost) is the text it was parsed from
pub struct Record { pub src: Ghost<Seq<u8>> }
pub mod parse {
    use super::*;
    // ASSUME(A-NOM1..4): contract of the nom grammar `parse::record` (NOT verified: combinator closures are outside Verus):
    //  1 on success `rest` is a suffix of the input;  2 a record never ends with '>' (its last consumed byte is a line
    //  ending), so a trailing '>' of the input is left in `rest`;  3 the record is a function of the consumed prefix
    #[verifier::external_body]
    pub fn record(input: &str) -> (r: Result<(&str, Record), NomErr>)
        ensures r is Ok ==> {
            let rest = r->Ok_0.0;
            &&& str_bytes(rest).len() <= str_bytes(input).len()
            &&& str_bytes(rest) == str_bytes(input).skip(str_bytes(input).len() - str_bytes(rest).len())
            &&& (str_bytes(input).len() >= 1 && str_bytes(input).last() == 0x3Eu8) ==> str_bytes(rest).len() >= 1
            &&& r->Ok_0.1.src@ == str_bytes(input).take(str_bytes(input).len() - str_bytes(rest).len())
            // 4 a record starts with its '>' header tag
            &&& str_bytes(input).len() >= 1 && str_bytes(input)[0] == 0x3Eu8 && str_bytes(rest).len() < str_bytes(input).len()
        }
    { unimplemented!() }
}
} // verus!
