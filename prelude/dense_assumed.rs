// ===== prelude/dense_assumed.rs : DenseMatrix operations seen through their contracts (each proved in group `dense`) =====
verus! {
impl MatrixCoordinates {
//@assume dense_mc_new
}
impl<T: MatrixElement, C: Unsigned> DenseMatrix<T, C> {
//@assume dense_new
//@assume dense_with_capacity
//@assume dense_rows
//@assume dense_columns
//@assume dense_resize
//@assume dense_reserve
}
impl<T: MatrixElement, C: Unsigned> Index<usize> for DenseMatrix<T, C> {
    type Output = [T];
//@assume dense_index
}
impl<T: MatrixElement, C: Unsigned> IndexMut<usize> for DenseMatrix<T, C> {
//@assume dense_index_mut
}
impl<T: MatrixElement, C: Unsigned> Index<MatrixCoordinates> for DenseMatrix<T, C> {
    type Output = T;
//@assume dense_index_mc
}
impl<T: MatrixElement, C: Unsigned> IndexMut<MatrixCoordinates> for DenseMatrix<T, C> {
//@assume dense_index_mut_mc
}
} // verus!
