// ===== prelude/dispatch_assumed.rs : the runtime-dispatched u8 pipeline as the scanner sees it =====
//@include spec/scan.rs
verus! {
impl<A: Alphabet> AsRefMat<u8, A::K> for DiscreteMatrix<A> {
    open spec fn mat_view(&self) -> DenseMatrix<u8, A::K> { self.data }
    // body of `AsRef<DenseMatrix<u8, A::K>> for DiscreteMatrix<A>` (matrix_traits!): `&self.data`
    fn as_ref(&self) -> (r: &DenseMatrix<u8, A::K>) { &self.data }
}

impl<A: Alphabet> Pipeline<A, Dispatch> {
    // ASSUME(A-DISP1): contract of `Score<u8, Dna, Lanes> for Pipeline<Dna, Dispatch>` (dispatch.rs): every arm computes the
    // SATURATED window sums of the 8-bit matrix. AVX2 arm: `_mm256_adds_epu8` (bounded Kani stand-in); generic arm: equals the
    // proved u8 kernel contract (group score_u8) only when no window sum exceeds 255 - otherwise finding D5.
    // The AVX2 arm panics unless wrap >= M - 1, hence the precondition.
    #[verifier::external_body]
    pub fn score_rows_into<C: PositiveLength, S: AsRefSeq<A, C>, M: AsRefMat<u8, A::K>>(
        &self, pssm: M, seq: S, rows: Range<usize>, scores: &mut StripedScores<u8, C>)
        requires
            seq.seq_view().data.wf(), pssm.mat_view().wf(), old(scores).data.wf(),
            seq.seq_view().wrap <= seq.seq_view().data@.len(),
            pssm.mat_view()@.len() >= 1, seq.seq_view().wrap + 1 >= pssm.mat_view()@.len(),
            seq.seq_view().length < usize::MAX,
            (rows.start < rows.end && seq.seq_view().length >= pssm.mat_view()@.len()) ==> rows.end + pssm.mat_view()@.len() <= seq.seq_view().data@.len() + 1,
        ensures
            final(scores).data.wf(),
            (seq.seq_view().length < pssm.mat_view()@.len() || !(rows.start < rows.end)) ==> final(scores).data@.len() == 0 && final(scores).max_index == 0,
            !(seq.seq_view().length < pssm.mat_view()@.len() || !(rows.start < rows.end)) ==> {
                &&& final(scores).data@.len() == rows.end - rows.start
                &&& final(scores).max_index == seq.seq_view().length + 1 - pssm.mat_view()@.len()
                &&& forall|r: int, c: int| 0 <= r < rows.end - rows.start && 0 <= c < C::USIZE ==>
                      #[trigger] final(scores).data@[r][c] as int == sat255(win_sum(pssm.mat_view()@, seq.seq_view().data@, rows.start + r, c, pssm.mat_view()@.len() as int))
            },
    { unimplemented!() }

    // ASSUME(A-DISP2): contract of `Maximum<u8, Lanes> for Pipeline<A, Dispatch>`: the generic contract (proved in group
    // maxthr, instantiated at u8 where the order hypothesis is lemma_u8_ord_ok); AVX2 arm: bounded Kani stand-in
    #[verifier::external_body]
    pub fn max<C: PositiveLength>(&self, scores: &StripedScores<u8, C>) -> (res: Option<u8>)
        requires scores.data.wf(),
        ensures
            (scores.data@.len() == 0) <==> res is None,
            res is Some ==> {
                &&& exists|r: int, c: int| 0 <= r < scores.data@.len() && 0 <= c < C::USIZE && #[trigger] scores.data@[r][c] == res->Some_0
                &&& forall|r: int, c: int| 0 <= r < scores.data@.len() && 0 <= c < C::USIZE ==> res->Some_0 >= #[trigger] scores.data@[r][c]
            },
    { unimplemented!() }

    // ASSUME(A-DISP3): contract of `Threshold<u8, Lanes> for Pipeline<A, Dispatch>` = the default impl (proved in group maxthr) at u8
    #[verifier::external_body]
    pub fn threshold<C: PositiveLength>(&self, scores: &StripedScores<u8, C>, threshold: u8) -> (positions: Vec<MatrixCoordinates>)
        requires scores.data.wf(),
        ensures
            forall|k: int| 0 <= k < positions@.len() ==> {
                &&& (#[trigger] positions@[k]).row < scores.data@.len() && positions@[k].col < C::USIZE
                &&& scores.data@[positions@[k].row as int][positions@[k].col as int] >= threshold },
            forall|r: int, c: int| 0 <= r < scores.data@.len() && 0 <= c < C::USIZE && (#[trigger] scores.data@[r][c]) >= threshold ==>
                exists|k: int| 0 <= k < positions@.len() && (#[trigger] positions@[k]).row == r && positions@[k].col == c,
            forall|k: int, l: int| 0 <= k < l < positions@.len() ==>
                before((#[trigger] positions@[k]).row as int, positions@[k].col as int, (#[trigger] positions@[l]).row as int, positions@[l].col as int),
    { unimplemented!() }
}

impl<A: Alphabet> DiscreteMatrix<A> {
    // ASSUME(A-F4): `DiscreteMatrix::scale` is a pure function of (offset, factor, score); its float arithmetic
    // (`((score - offset) / factor).floor() as u8`) is uninterpreted
    #[verifier::external_body]
    pub fn scale(&self, score: f32) -> (r: u8)
        ensures r == scale_spec(self.offset, self.factor, score)
    { unimplemented!() }
}

// ASSUME(A-F5): `f32::is_nan` names a fixed predicate
pub assume_specification[ f32::is_nan ](x: f32) -> (r: bool)
    ensures r == f32_is_nan(x);

// ASSUME(A-W4): spec-attachment wrapper for `assert!`: "no panic" is the precondition `cond`; the body is the macro itself
#[verifier::external_body]
pub fn runtime_assert(cond: bool)
    requires cond
{ assert!(cond); }
} // verus!
