// ===== lemmas/scan_lemmas.rs : bridging lemmas for the scanner units (C02 / C03) =====
verus! {
/// linear position of candidate cell `c` of a block starting at matrix row `row` ("col * sequence_rows + block_row + row")
pub open spec fn cidx(c: MatrixCoordinates, R: int, row: int) -> int { c.col * R + row + c.row }

/// u8 window sum read down a matrix column == window sum over the linear sequence, for a window inside the sequence
pub proof fn lemma_win_is_upos<A: Alphabet, C: PositiveLength>(q: &StripedSequence<A, C>, pssm: Seq<Seq<u8>>, rho: int, c: int, n: int)
    requires
        q.stripe_ok(q.linear()), q.wrap_ok(), q.geom_ok(), 0 <= rho, 0 <= c < C::USIZE, 0 <= n, rho + n <= q.data@.len(),
        c * q.seq_rows() + rho + n <= q.length,
    ensures win_sum(pssm, q.data@, rho, c, n) == upos_sum(pssm, q.linear(), c * q.seq_rows() + rho, n)
    decreases n
{
    if n > 0 {
        lemma_win_is_upos(q, pssm, rho, c, n - 1);
        q.lemma_layout(q.linear(), rho + n - 1, c);
        assert(0 <= c * q.seq_rows()) by (nonlinear_arith) requires 0 <= c, 0 <= q.seq_rows();
    }
}

/// rescoring over the padded cell sequence == rescoring over the linear sequence, for a window inside the sequence
pub proof fn lemma_fpos_ext<A: Alphabet, C: PositiveLength>(q: &StripedSequence<A, C>, pssm: Seq<Seq<f32>>, p: int, n: int)
    requires q.geom_ok(), 0 <= p, 0 <= n, p + n <= q.length
    ensures fpos_sum(pssm, q.linear_ext(), p, n) == fpos_sum(pssm, q.linear(), p, n)
    decreases n
{
    if n > 0 { lemma_fpos_ext(q, pssm, p, n - 1); }
}

/// geometry of a candidate cell
pub proof fn lemma_cidx(R: int, C: int, row: int, r: int, c: int)
    requires 0 <= row, 0 <= r, row + r < R, 0 <= c < C
    ensures
        0 <= c * R + row + r < R * C, (c * R + row + r) % R == row + r, (c * R + row + r) / R == c,
{
    lemma_cell_pos(row + r, c, R, C);
}

/// a position determines its cell
pub proof fn lemma_pos_cell(R: int, C: int, p: int)
    requires 0 <= p < R * C, R >= 0, C >= 0
    ensures R > 0, 0 <= p % R < R, 0 <= p / R < C, (p / R) * R + p % R == p
{
    lemma_divmod_cell(p, R, C);
}
} // verus!
