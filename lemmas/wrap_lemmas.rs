// ===== lemmas/wrap_lemmas.rs =====
verus! {
/// with zero sequence rows every look-ahead row consists of wildcards only
pub proof fn lemma_empty_row_wild<A: Alphabet, C: PositiveLength>(q: &StripedSequence<A, C>, k: int, c: int)
    requires q.data.wf(), q.wrap <= q.data@.len(), q.wrap_ok(), q.seq_rows() == 0, 0 <= k < q.wrap, 0 <= c < C::USIZE
    ensures q.data@[k][c] == wild::<A::Symbol>()
    decreases C::USIZE - c
{
    if c < C::USIZE - 1 {
        lemma_empty_row_wild(q, k, c + 1);
        assert(q.data@[q.seq_rows() + k][c] == q.data@[k][c + 1]);
    } else {
        assert(q.data@[q.seq_rows() + k][C::USIZE - 1] == wild::<A::Symbol>());
    }
}

} // verus!
