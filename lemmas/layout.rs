// ===== lemmas/layout.rs : from matrix cells to linear positions (C01 top-level statement) =====
verus! {
impl<A: Alphabet, C: PositiveLength> StripedSequence<A, C> {
    /// every matrix row rho (sequence row or look-ahead row) holds, in column c, the symbol at linear
    /// position c*R + rho (the wildcard past the end of the sequence)
    pub proof fn lemma_layout(&self, s: Seq<A::Symbol>, rho: int, c: int)
        requires self.stripe_ok(s), self.wrap_ok(), 0 <= rho < self.data@.len(), 0 <= c < C::USIZE
        ensures self.data@[rho][c] == sym_at(s, c * self.seq_rows() + rho)
        decreases rho
    {
        let R = self.seq_rows();
        C::positive();
        lemma_ceil(s.len() as int, C::USIZE as int);
        assert(0 <= c * R) by (nonlinear_arith) requires 0 <= c, 0 <= R;
        if rho < R {
            assert(self.data@[rho][c] == cell(s, R, rho, c));
        } else if R == 0 {
            lemma_empty_row_wild(self, rho, c);
        } else {
            let k = rho - R;
            if c < C::USIZE - 1 {
                assert(self.data@[R + k][c] == self.data@[k][c + 1]);
                self.lemma_layout(s, k, c + 1);
                assert((c + 1) * R + k == c * R + rho) by (nonlinear_arith) requires k == rho - R;
            } else {
                assert(self.data@[R + k][C::USIZE - 1] == wild::<A::Symbol>());
                assert(c * R + rho >= R * C::USIZE) by (nonlinear_arith) requires c == C::USIZE - 1, rho >= R;
            }
        }
    }
}

/// the window sum read from the matrix equals the window sum over the linear sequence at position c*R + r
pub proof fn lemma_gsum_is_lsum<T: MatrixElement + core::ops::AddAssign, A: Alphabet, C: PositiveLength>(
    q: &StripedSequence<A, C>, s: Seq<A::Symbol>, pssm: Seq<Seq<T>>, r: int, c: int, n: int)
    requires q.stripe_ok(s), q.wrap_ok(), 0 <= r, 0 <= c < C::USIZE, 0 <= n, r + n <= q.data@.len(),
    ensures gsum(pssm, q.data@, r, c, n) == lsum(pssm, s, c * q.seq_rows() + r, n)
    decreases n
{
    if n > 0 {
        lemma_gsum_is_lsum::<T, A, C>(q, s, pssm, r, c, n - 1);
        q.lemma_layout(s, r + n - 1, c);
    }
}

/// C01, first sentence, as a consequence of the contracts of `score_into`, `StripedScores::iter` and `Iter::get`:
/// for a striped, configured sequence the scores object enumerates exactly n_pos(L, M) values and value i is lsum(M, s, i)
pub proof fn theorem_c01<T: MatrixElement + core::ops::AddAssign, A: Alphabet, C: PositiveLength>(
    q: &StripedSequence<A, C>, s: Seq<A::Symbol>, pssm: Seq<Seq<T>>, scores: &StripedScores<T, C>, i: int)
    requires
        q.stripe_ok(s), q.wrap_ok(), q.wrap + 1 >= pssm.len(), pssm.len() >= 1,
        // post-state of score_into
        scores.data.wf(),
        (q.length < pssm.len() || q.seq_rows() == 0) ==> scores.data@.len() == 0 && scores.max_index == 0,
        !(q.length < pssm.len() || q.seq_rows() == 0) ==> {
            &&& scores.data@.len() == q.seq_rows()
            &&& scores.max_index == q.length + 1 - pssm.len()
            &&& forall|r: int, c: int| 0 <= r < q.seq_rows() && 0 <= c < C::USIZE ==>
                  #[trigger] scores.data@[r][c] == gsum(pssm, q.data@, r, c, pssm.len() as int)
        },
    ensures
        // number of values yielded by iter(): min(max_index, R*C) == n_pos(L, M)
        (if scores.max_index <= scores.data@.len() * C::USIZE { scores.max_index as int } else { scores.data@.len() * C::USIZE }) == n_pos(s.len() as int, pssm.len() as int),
        // value i (Iter::get: cell (i mod R, i div R)) is the score of position i
        0 <= i < n_pos(s.len() as int, pssm.len() as int) ==> {
            &&& scores.data@.len() > 0 && i / (scores.data@.len() as int) < C::USIZE
            &&& scores.data@[i % (scores.data@.len() as int)][i / (scores.data@.len() as int)] == lsum(pssm, s, i, pssm.len() as int)
        },
{
    let R = q.seq_rows();
    let L = s.len() as int;
    let M = pssm.len() as int;
    C::positive();
    lemma_ceil(L, C::USIZE as int);
    if L < M || R == 0 {
        assert(0 * C::USIZE == 0) by (nonlinear_arith);
    } else {
        assert(L - M + 1 <= R * C::USIZE);
        if 0 <= i < n_pos(L, M) {
            lemma_divmod_cell(i, R, C::USIZE as int);
            let r = i % R; let c = i / R;
            lemma_gsum_is_lsum::<T, A, C>(q, s, pssm, r, c, M);
            assert(c * R + r == i) by (nonlinear_arith) requires (i / R) * R + i % R == i, r == i % R, c == i / R;
        }
    }
}
} // verus!
