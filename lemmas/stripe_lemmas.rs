// ===== lemmas/stripe_lemmas.rs : arithmetic of the column-major layout =====
verus! {
/// (index / R, index % R) are in range for every position of a well-formed striped sequence
pub proof fn lemma_divmod_cell(p: int, R: int, C: int)
    requires 0 <= p < R * C, R >= 0, C >= 0
    ensures R > 0, 0 <= p % R < R, 0 <= p / R < C, (p / R) * R + p % R == p
{
    assert(R > 0) by (nonlinear_arith) requires 0 <= p < R * C, R >= 0, C >= 0;
    vstd::arithmetic::div_mod::lemma_fundamental_div_mod(p, R);
    vstd::arithmetic::div_mod::lemma_mod_bound(p, R);
    assert(0 <= p / R) by (nonlinear_arith) requires 0 <= p, R > 0;
    assert(p / R < C) by (nonlinear_arith) requires p < R * C, R > 0, p == R * (p / R) + p % R, 0 <= p % R;
    assert((p / R) * R == R * (p / R)) by (nonlinear_arith);
}

/// cell (r, c) is position c*R + r
pub proof fn lemma_cell_pos(r: int, c: int, R: int, C: int)
    requires 0 <= r < R, 0 <= c < C
    ensures 0 <= c * R + r < R * C, (c * R + r) % R == r, (c * R + r) / R == c
{
    vstd::arithmetic::div_mod::lemma_fundamental_div_mod_converse(c * R + r, R, c, r);
    assert(c * R + r < R * C) by (nonlinear_arith) requires 0 <= r < R, 0 <= c < C;
    assert(0 <= c * R + r) by (nonlinear_arith) requires 0 <= r, 0 <= c, 0 <= R;
}

/// both ways the code computes the row count equal ceil(L / C); L <= R*C < L + C
pub proof fn lemma_ceil(l: int, c: int)
    requires l >= 0, c >= 1
    ensures
        (l + (c - 1)) / c == ceil_div(l, c),
        (l / c) + (if l % c > 0 { 1int } else { 0int }) == ceil_div(l, c),
        l <= ceil_div(l, c) * c, ceil_div(l, c) * c < l + c, ceil_div(l, c) >= 0, ceil_div(l, c) <= l,
        l > 0 ==> ceil_div(l, c) > 0,
{
    vstd::arithmetic::div_mod::lemma_fundamental_div_mod(l, c);
    vstd::arithmetic::div_mod::lemma_mod_bound(l, c);
    let q = l / c;
    let m = l % c;
    assert(q >= 0) by (nonlinear_arith) requires l >= 0, c >= 1, l == c * q + m, 0 <= m < c;
    assert(q * c == c * q) by (nonlinear_arith);
    assert((q + 1) * c == c * q + c) by (nonlinear_arith);
    if m == 0 {
        vstd::arithmetic::div_mod::lemma_fundamental_div_mod_converse(l + (c - 1), c, q, c - 1);
    } else {
        vstd::arithmetic::div_mod::lemma_fundamental_div_mod_converse(l + (c - 1), c, q + 1, m - 1);
    }
    assert(q <= l) by (nonlinear_arith) requires l == c * q + m, c >= 1, q >= 0, m >= 0;
    assert(m > 0 ==> q + 1 <= l) by (nonlinear_arith) requires l == c * q + m, c >= 1, q >= 0, m >= 0;
}
} // verus!
