// ===== lemmas/stripe_lemmas.rs : arithmetic of the row count =====
//@include lemmas/stripe_lemmas_nospec.rs
verus! {
/// both ways the code computes the row count equal ceil(L / C); L <= R*C < L + C
pub proof fn lemma_ceil(l: int, c: int)
    requires l >= 0, c >= 1
    ensures
        (l + (c - 1)) / c == ceil_div(l, c),
        (l / c) + (if l % c > 0 { 1int } else { 0int }) == ceil_div(l, c),
        l <= ceil_div(l, c) * c, ceil_div(l, c) * c < l + c, ceil_div(l, c) >= 0, ceil_div(l, c) <= l,
        l > 0 ==> ceil_div(l, c) > 0,
{
    vstd::arithmetic::div_mod::lemma_fundamental_div_mod(l, c);
    vstd::arithmetic::div_mod::lemma_mod_bound(l, c);
    let q = l / c;
    let m = l % c;
    assert(q >= 0) by (nonlinear_arith) requires l >= 0, c >= 1, l == c * q + m, 0 <= m < c;
    assert(q * c == c * q) by (nonlinear_arith);
    assert((q + 1) * c == c * q + c) by (nonlinear_arith);
    if m == 0 {
        vstd::arithmetic::div_mod::lemma_fundamental_div_mod_converse(l + (c - 1), c, q, c - 1);
    } else {
        vstd::arithmetic::div_mod::lemma_fundamental_div_mod_converse(l + (c - 1), c, q + 1, m - 1);
    }
    assert(q <= l) by (nonlinear_arith) requires l == c * q + m, c >= 1, q >= 0, m >= 0;
    assert(m > 0 ==> q + 1 <= l) by (nonlinear_arith) requires l == c * q + m, c >= 1, q >= 0, m >= 0;
    // last clause, spelled out (it was proved only incidentally before and flipped when an unrelated axiom was added to the file)
    if l > 0 && m == 0 {
        assert(q >= 1) by (nonlinear_arith) requires l == c * q + m, m == 0, l > 0, c >= 1, q >= 0;
    }
    assert(ceil_div(l, c) == (if m == 0 { q } else { q + 1 }));
}
} // verus!
