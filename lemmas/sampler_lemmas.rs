// ===== lemmas/sampler_lemmas.rs : algebra of the incremental count updates (C16) =====
verus! {
pub open spec fn with_active(al: Align, z: int, b: bool) -> Align { Align { active: al.active.update(z, b), starts: al.starts } }
pub open spec fn with_start(al: Align, z: int, s: usize) -> Align { Align { active: al.active, starts: al.starts.update(z, s) } }

/// contribution of sequence z to motif cell (i, k)
pub open spec fn mterm<S: Symbol>(lins: Seq<Seq<S>>, al: Align, z: int, i: int, k: int) -> int {
    b2i(lins[z][al.starts[z] + i].idx() == k)
}
/// contribution of sequence z to background entry k
pub open spec fn bterm<S: Symbol>(lins: Seq<Seq<S>>, al: Align, w: int, z: int, k: int) -> int {
    cnt(lins[z], lins[z].len() as int, k) - wcnt(lins[z], al.starts[z] as int, w, k)
}

pub proof fn lemma_mcnt_update<S: Symbol>(lins: Seq<Seq<S>>, al: Align, z: int, b: bool, q: int, i: int, k: int)
    requires 0 <= z < al.active.len(), 0 <= q <= al.active.len(),
    ensures mcnt(lins, with_active(al, z, b), q, i, k) ==
        mcnt(lins, al, q, i, k) + (if z < q { (if b { mterm(lins, al, z, i, k) } else { 0 }) - (if al.active[z] { mterm(lins, al, z, i, k) } else { 0 }) } else { 0 }),
    decreases q
{
    if q > 0 { lemma_mcnt_update(lins, al, z, b, q - 1, i, k); }
}

pub proof fn lemma_bcnt_update<S: Symbol>(lins: Seq<Seq<S>>, al: Align, w: int, z: int, b: bool, q: int, k: int)
    requires 0 <= z < al.active.len(), 0 <= q <= al.active.len(),
    ensures bcnt(lins, with_active(al, z, b), w, q, k) ==
        bcnt(lins, al, w, q, k) + (if z < q { (if b { bterm(lins, al, w, z, k) } else { 0 }) - (if al.active[z] { bterm(lins, al, w, z, k) } else { 0 }) } else { 0 }),
    decreases q
{
    if q > 0 { lemma_bcnt_update(lins, al, w, z, b, q - 1, k); }
}

pub proof fn lemma_acount_update(active: Seq<bool>, z: int, b: bool, q: int)
    requires 0 <= z < active.len(), 0 <= q <= active.len(),
    ensures acount(active.update(z, b), q) == acount(active, q) + (if z < q { b2i(b) - b2i(active[z]) } else { 0 }),
        0 <= acount(active, q) <= q,
    decreases q
{
    if q > 0 { lemma_acount_update(active, z, b, q - 1); }
}

/// moving the window of an INACTIVE sequence changes neither sum
pub proof fn lemma_start_update_inactive<S: Symbol>(lins: Seq<Seq<S>>, al: Align, w: int, z: int, s: usize, q: int, i: int, k: int)
    requires 0 <= z < al.active.len(), al.active.len() == al.starts.len(), !al.active[z], 0 <= q <= al.active.len(),
    ensures
        mcnt(lins, with_start(al, z, s), q, i, k) == mcnt(lins, al, q, i, k),
        bcnt(lins, with_start(al, z, s), w, q, k) == bcnt(lins, al, w, q, k),
    decreases q
{
    if q > 0 { lemma_start_update_inactive(lins, al, w, z, s, q - 1, i, k); }
}

pub proof fn lemma_cnt_bounds<S: Symbol>(lin: Seq<S>, a: int, b: int, k: int)
    requires 0 <= a <= b
    ensures 0 <= cnt(lin, a, k) <= cnt(lin, b, k) <= b
    decreases b
{
    if b > 0 { if a < b { lemma_cnt_bounds(lin, a, b - 1, k); } else { lemma_cnt_bounds(lin, a - 1, b - 1, k); } }
}

/// a window is part of its sequence: cnt(st + w) = cnt(st) + wcnt(st, w)
pub proof fn lemma_wcnt_split<S: Symbol>(lin: Seq<S>, st: int, w: int, k: int)
    requires 0 <= st, 0 <= w
    ensures cnt(lin, st + w, k) == cnt(lin, st, k) + wcnt(lin, st, w, k), 0 <= wcnt(lin, st, w, k) <= w
    decreases w
{
    if w > 0 { lemma_wcnt_split(lin, st, w - 1, k); }
}

pub proof fn lemma_wcnt_mono<S: Symbol>(lin: Seq<S>, st: int, a: int, b: int, k: int)
    requires 0 <= a <= b
    ensures 0 <= wcnt(lin, st, a, k) <= wcnt(lin, st, b, k)
    decreases b
{
    if b > 0 { if a < b { lemma_wcnt_mono(lin, st, a, b - 1, k); } else { lemma_wcnt_mono(lin, st, a - 1, b - 1, k); } }
}

pub proof fn lemma_wcnt_le_cnt<S: Symbol>(lin: Seq<S>, st: int, w: int, k: int)
    requires 0 <= st, 0 <= w, st + w <= lin.len()
    ensures 0 <= wcnt(lin, st, w, k) <= cnt(lin, lin.len() as int, k)
{
    lemma_wcnt_split(lin, st, w, k);
    lemma_cnt_bounds(lin, 0, st, k);
    lemma_cnt_bounds(lin, st + w, lin.len() as int, k);
}

pub proof fn lemma_mcnt_bounds<S: Symbol>(lins: Seq<Seq<S>>, al: Align, q: int, i: int, k: int)
    requires 0 <= q
    ensures 0 <= mcnt(lins, al, q, i, k) <= q
    decreases q
{
    if q > 0 { lemma_mcnt_bounds(lins, al, q - 1, i, k); }
}

/// every active window lies inside its sequence => 0 <= bcnt(q) <= tcnt(q); and an inactive z leaves room for its whole count
pub open spec fn windows_ok<S: Symbol>(lins: Seq<Seq<S>>, al: Align, w: int) -> bool {
    forall|z: int| 0 <= z < lins.len() ==> (#[trigger] al.starts[z]) + w <= lins[z].len()
}
pub proof fn lemma_bcnt_bounds<S: Symbol>(lins: Seq<Seq<S>>, al: Align, w: int, z: int, q: int, k: int)
    requires 0 <= q <= lins.len(), 0 <= w, windows_ok(lins, al, w), al.active.len() == lins.len(), al.starts.len() == lins.len(), 0 <= z < lins.len(),
    ensures
        0 <= bcnt(lins, al, w, q, k) <= tcnt(lins, q, k),
        !al.active[z] ==> bcnt(lins, al, w, q, k) + (if z < q { cnt(lins[z], lins[z].len() as int, k) } else { 0 }) <= tcnt(lins, q, k),
    decreases q
{
    if q > 0 {
        lemma_bcnt_bounds(lins, al, w, z, q - 1, k);
        lemma_wcnt_le_cnt(lins[q - 1], al.starts[q - 1] as int, w, k);
        lemma_cnt_bounds(lins[q - 1], 0, lins[q - 1].len() as int, k);
    }
}

pub proof fn lemma_mcnt_ge_term<S: Symbol>(lins: Seq<Seq<S>>, al: Align, z: int, q: int, i: int, k: int)
    requires 0 <= z < q <= al.active.len(), al.active[z]
    ensures mcnt(lins, al, q, i, k) >= mterm(lins, al, z, i, k)
    decreases q
{
    lemma_mcnt_bounds(lins, al, q - 1, i, k);
    if z < q - 1 { lemma_mcnt_ge_term(lins, al, z, q - 1, i, k); }
}

/// bridge to C04: the recursive count is the cardinality `count_symbols` is specified with
pub proof fn lemma_cnt_is_occ<S: Symbol>(lin: Seq<S>, n: int, k: int)
    requires 0 <= n <= lin.len()
    ensures cnt(lin, n, k) == occ_idx(lin.take(n), k).len()
    decreases n
{
    if n == 0 {
        assert(occ_idx(lin.take(0), k) =~= Set::<int>::empty());
    } else {
        lemma_cnt_is_occ(lin, n - 1, k);
        let a = occ_idx(lin.take(n - 1), k);
        let b = occ_idx(lin.take(n), k);
        if lin[n - 1].idx() == k {
            assert(b =~= a.insert(n - 1));
        } else {
            assert(b =~= a);
        }
    }
}
} // verus!
