// ===== lemmas/stripe_lemmas_nospec.rs : arithmetic of the column-major layout (div/mod <-> cell) =====
verus! {
/// (index / R, index % R) are in range for every position of a well-formed striped sequence
pub proof fn lemma_divmod_cell(p: int, R: int, C: int)
    requires 0 <= p < R * C, R >= 0, C >= 0
    ensures R > 0, 0 <= p % R < R, 0 <= p / R < C, (p / R) * R + p % R == p
{
    assert(R > 0) by (nonlinear_arith) requires 0 <= p < R * C, R >= 0, C >= 0;
    vstd::arithmetic::div_mod::lemma_fundamental_div_mod(p, R);
    vstd::arithmetic::div_mod::lemma_mod_bound(p, R);
    assert(0 <= p / R) by (nonlinear_arith) requires 0 <= p, R > 0;
    assert(p / R < C) by (nonlinear_arith) requires p < R * C, R > 0, p == R * (p / R) + p % R, 0 <= p % R;
    assert((p / R) * R == R * (p / R)) by (nonlinear_arith);
}

/// cell (r, c) is position c*R + r
pub proof fn lemma_cell_pos(r: int, c: int, R: int, C: int)
    requires 0 <= r < R, 0 <= c < C
    ensures 0 <= c * R + r < R * C, (c * R + r) % R == r, (c * R + r) / R == c
{
    vstd::arithmetic::div_mod::lemma_fundamental_div_mod_converse(c * R + r, R, c, r);
    assert(c * R + r < R * C) by (nonlinear_arith) requires 0 <= r < R, 0 <= c < C;
    assert(0 <= c * R + r) by (nonlinear_arith) requires 0 <= r, 0 <= c, 0 <= R;
}
} // verus!
