#!/bin/bash
# usage: confirm_seed.sh <Cxx> <n>   : confirm a candidate seeded change in a scratch worktree (never in /repo)
#   1 demo passes on the unchanged tree   2 change applies and builds   3 demo fails with the change
#   4 existing suite still passes (apart from the 4 known argmax failures)
set -u
ID=$1; N=$2
SRC=/tmp/seeded/$ID/$N
WT=/tmp/wt/confirm-$ID-$N
OUT=$SRC/confirm.log
rm -rf "$WT"; git -C /repo worktree prune
git -C /repo worktree add -q --detach "$WT" HEAD || exit 9
export CARGO_TARGET_DIR=/tmp/wt/confirm-target
cd "$WT"
{
echo "== demo on unchanged tree"
bash "$SRC/run.sh" > "$SRC/confirm_clean.log" 2>&1; RC_CLEAN=$?
echo "rc_clean=$RC_CLEAN"
git checkout -q -- . ; 
echo "== apply patch"
git apply "$SRC/patch.diff"; RC_APPLY=$?
echo "rc_apply=$RC_APPLY"
bash "$SRC/run.sh" > "$SRC/confirm_mut.log" 2>&1; RC_MUT=$?
echo "rc_mut=$RC_MUT"
git clean -fdq
echo "== test suite with the change"
cargo test --workspace --no-fail-fast --offline > "$SRC/confirm_suite.log" 2>&1
FAILS=$(grep -E "^test .* FAILED$" "$SRC/confirm_suite.log" | sort -u | grep -v -E "generic::argmax_f32|dispatch::argmax_f32|dispatch::scanner_max|sse2::argmax_f32" | wc -l)
COMPILED=$(grep -c "error\[E" "$SRC/confirm_suite.log")
echo "unexpected_test_failures=$FAILS compile_errors=$COMPILED"
if [ "$RC_CLEAN" = 0 ] && [ "$RC_APPLY" = 0 ] && [ "$RC_MUT" != 0 ] && [ "$FAILS" = 0 ] && [ "$COMPILED" = 0 ]; then echo "CONFIRMED"; else echo "NOT-CONFIRMED"; fi
} > "$OUT" 2>&1
cd /; git -C /repo worktree remove --force "$WT"
tail -1 "$OUT"
