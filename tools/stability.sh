#!/bin/bash
# proof-stability sweep: every generated group under several SMT random seeds and a halved resource limit.
# A proof that flips under a seed is brittle (it may flip on a harmless edit of /repo): harden it.
# usage: tools/stability.sh [group...]   (uses the files already generated in build/; run ./check first)
cd ${STAB_DIR:-/verif/build}
groups=${@:-$(ls *.rs | sed 's/\.rs$//')}
for g in $groups; do
  [ -f $g.rs ] || continue
  base=$(verus $g.rs --triggers-mode silent --rlimit 60 --multiple-errors 20 2>&1 | grep -c "^error: \(postcondition\|precondition\|invariant\|assertion\|possible\)")
  for seed in 1 2 3 4 5; do
    n=$(verus $g.rs --triggers-mode silent --rlimit 30 --multiple-errors 20 --smt-option smt.random_seed=$seed 2>&1 | grep -c "^error: \(postcondition\|precondition\|invariant\|assertion\|possible\|rlimit\|resource\)")
    [ "$n" != "$base" ] && echo "UNSTABLE $g seed=$seed errors=$n (baseline $base = canaries)"
  done
  echo "done $g (baseline refutations = $base)"
done
