#!/usr/bin/env python3
"""store_seeds.py <src-root> <srcid>:<Cxx>-<n> ...
For each candidate (already confirmed with confirm_seed.sh): apply it to /repo, run ./check <Cxx> --tier quick, undo it straight
afterwards, and store patch + demonstration + meta.json under /verif/seeded/<Cxx>-<n>/."""
import sys, os, re, json, shutil, subprocess, glob

root = sys.argv[1]
for spec in sys.argv[2:]:
    src, dst = spec.split(':')
    prop = dst.split('-')[0]
    sd = os.path.join(root, src)
    dd = os.path.join('/verif/seeded', dst)
    if subprocess.call(['git', '-C', '/repo', 'diff', '--quiet']) != 0:
        sys.exit('/repo not clean')
    conf = open(os.path.join(sd, 'confirm.log')).read().split('\n') if os.path.exists(os.path.join(sd, 'confirm.log')) else []
    if 'CONFIRMED' not in conf:
        print(dst, 'NOT CONFIRMED - skipped'); continue
    if subprocess.call(['git', '-C', '/repo', 'apply', os.path.join(sd, 'patch.diff')]) != 0:
        print(dst, 'PATCH DOES NOT APPLY to the current tree - skipped', flush=True); continue
    try:
        r = subprocess.run(['./check', prop, '--tier', os.environ.get('TIER', 'quick')], cwd='/verif', capture_output=True, text=True, timeout=3600)
        out, rc = r.stdout + r.stderr, r.returncode
    finally:
        subprocess.check_call(['git', '-C', '/repo', 'checkout', '--', '.'])
    os.makedirs(dd, exist_ok=True)
    demos = []
    for f in os.listdir(sd):
        if f in ('patch.diff', 'run.sh', 'notes.md') or (f.endswith(('.rs', '.py')) and not f.startswith('confirm')):
            shutil.copy(os.path.join(sd, f), dd)
            if f.endswith(('.rs', '.py')): demos.append(f)
    viol = re.findall(r'^VIOLATION property=\S+ replay=/verif/replays/(\S+)\.json(.*)$', out, re.M)
    und = [l[:300] for l in re.findall(r'^UNDECIDED.*$', out, re.M)]
    files = re.findall(r'^diff --git a/(\S+)', open(os.path.join(sd, 'patch.diff')).read(), re.M)
    notes = open(os.path.join(sd, 'notes.md')).read() if os.path.exists(os.path.join(sd, 'notes.md')) else ''
    m = re.search(r'(?is)(what is needed.*?|needs.*?|manifest.*?)\n(.{0,1200})', notes)
    meta = {
        'property': prop,
        'origin': 'written by an independent sub-agent given only the property text and its own scratch worktree of /repo',
        'files_changed': files,
        'needs_to_manifest': (m.group(0)[:1400] if m else notes[:1400]),
        'demonstration': demos,
        'confirmed_by_me': {
            'how': '/verif/tools/confirm_seed.sh in a scratch worktree: run.sh on the unchanged tree (must pass), git apply patch.diff, run.sh (must fail), cargo test --workspace --no-fail-fast --offline (only the 4 known argmax failures allowed)',
            'result': [l for l in conf if l and not l.startswith('==')]},
        'detected_by': {
            'command': 'git -C /repo apply patch.diff && ./check %s --tier %s ; git -C /repo checkout -- .' % (prop, os.environ.get('TIER', 'quick')),
            'exit_status': rc,
            'deductive_obligations_refuted (Verus)': [v[0] for v in viol if '-native_' not in v[0] and '-kani_' not in v[0]],
            'kani_harnesses_failed': [v[0] for v in viol if '-kani_' in v[0]],
            'native_bounded_sweep_units': [v[0] for v in viol if '-native_' in v[0]],
            'undecided': und},
    }
    json.dump(meta, open(os.path.join(dd, 'meta.json'), 'w'), indent=1)
    print(dst, 'rc=%d' % rc, 'verus=%d kani=%d native=%d undecided=%d' % (len(meta['detected_by']['deductive_obligations_refuted (Verus)']), len(meta['detected_by']['kani_harnesses_failed']), len(meta['detected_by']['native_bounded_sweep_units']), len(und)), flush=True)
