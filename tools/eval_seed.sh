#!/bin/bash
# usage: eval_seed.sh <dir with patch.diff> <Cxx> [more properties...]  : apply to /repo, run checks, undo straight afterwards
D=$1; shift
cd /repo && git diff --quiet || { echo "/repo not clean"; exit 9; }
git -C /repo apply "$D/patch.diff" || { echo "patch does not apply"; exit 8; }
for P in "$@"; do
  cd /verif && timeout 1800 ./check $P --tier ${TIER:-quick} > /tmp/eval_$P.out 2>&1; rc=$?
  echo "  $P rc=$rc :: $(grep -E '^(VIOLATION|UNDECIDED|KNOWN)' /tmp/eval_$P.out | head -3 | cut -c1-220 | tr '\n' '|')"
done
git -C /repo checkout -- .
