#!/bin/bash
# confirm every candidate under /tmp/seeded sequentially (shared target dir), results in /tmp/seeded/CONFIRM.txt
for d in /tmp/seeded/C*/[12]; do
  id=$(basename $(dirname $d)); n=$(basename $d)
  [ -f $d/patch.diff ] || continue
  [ -f $d/confirm.log ] && continue
  r=$(/verif/tools/confirm_seed.sh $id $n)
  echo "$id/$n $r" >> /tmp/seeded/CONFIRM.txt
done
echo DONE >> /tmp/seeded/CONFIRM.txt
