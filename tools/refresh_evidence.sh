#!/bin/bash
# run every claimed check on the unchanged tree (quick tier), refresh /verif/evidence, validate against the schema
cd /verif
git -C /repo diff --quiet || { echo "/repo working tree is not clean"; exit 9; }
rc_all=0
for p in $(python3 -c "import json;print(' '.join(c['property_id'] for c in json.load(open('MANIFEST.json'))['checks']))"); do
  out=$(VERIF_SEED=${VERIF_SEED:-1} ./check $p --tier ${1:-quick} 2>&1 | tail -1); rc=$?
  echo "$out"
  echo "$out" | grep -q "rc=0" || rc_all=1
done
python3-vt - <<'PY'
import json,glob,jsonschema
sch=json.load(open('/root/.vp/EVIDENCE.schema.json'))
man=json.load(open('/verif/MANIFEST.json'))
jsonschema.validate(man,json.load(open('/root/.vp/MANIFEST.schema.json')))
for c in man['checks']:
    ev=json.load(open(c['evidence_file']))
    jsonschema.validate(ev,sch)
    assert ev['coverage']['obligations']==ev['coverage']['discharged'], c['property_id']
print('manifest + %d evidence files valid' % len(man['checks']))
PY
exit $rc_all
