HOOKS = {
    'guard': 'cargo feature `verif-hooks` of crate lightmotif (off by default)',
    'enable': 'harness crates under /verif depend on lightmotif with features = ["verif-hooks"]; Verus units need no hook (extraction reads the files as they are)',
    'baseline_off_cmd': 'cd /repo && cargo test --workspace --no-fail-fast --offline',
    'source_commits': [],
    'add_only': True,
}
NOTES = 'Exit codes of ./check: 0 all obligations discharged; 1 VIOLATION (definite verifier refutation not recorded as a known finding); 2 undecided (lost anchor, changed signature, unsupported construct, rlimit, tool crash) - never an alarm. See DESIGN.md.'

PENDING = 'check not built yet in this session (planned in DESIGN.md section 5)'
NOT_APPLICABLE = {
    'C01': PENDING, 'C02': PENDING, 'C03': PENDING, 'C05': PENDING, 'C06': PENDING, 'C07': PENDING, 'C08': PENDING,
    'C09': PENDING, 'C10': PENDING, 'C14': PENDING, 'C15': PENDING, 'C16': PENDING, 'C18': PENDING,
    'C11': 'numerical accuracy of a 1000-bin f32 convolution against an exact enumeration over K^M words: floats are uninterpreted in Verus and the convolution is out of reach of CBMC; no contract within reach expresses or decides it (DESIGN.md 5/C11)',
    'C12': 'HashMap<i64,f64> dynamic programming bounded by exact tail probabilities of the true score distribution: a protocol-level real-number argument (TFM-PVALUE paper), not expressible over the real code with Verus (opaque floats, no HashMap iteration specs) or Kani (unbounded loops over float maps) (DESIGN.md 5/C12)',
    'C13': 'same algorithm and obstacle as C12 (score thresholds from the same f64 HashMap recurrences) (DESIGN.md 5/C13)',
    'C17': 'every clause is about values crossing the CPython FFI (PyDict iteration, extract, Py<..> cells, GIL release, transmuted self-referential scanner); neither Verus nor Kani can model PyO3/CPython; the core-side halves are the contracts of C01-C03, C07, C09, C10, C14 (DESIGN.md 5/C17)',
}

CHECKS = {
    'C19': {
        'text': 'Unbounded deductive proof (Verus) on the verbatim bodies of DenseMatrix::{new, with_capacity, resize, reserve, rows, columns, capacity, Index/IndexMut<usize>, Index/IndexMut<MatrixCoordinates>} with the real struct layout: the representation invariant is established by constructors and preserved by every operation from an arbitrary pre-state (hence for all histories); resize keeps old rows over the whole view and fills new rows with the default; index_mut changes exactly one row/cell (frame). Layout facts (stride, alignment) and the unsafe constructors are checked by Kani (complete for the listed (T,C) instances / bounded for unsafe code).',
        'design_ref': 'DESIGN.md section 5, C19',
        'note': 'Trusted: Verus/Z3; GenericArray ~ [T;N] (A-GA1); Vec::resize_with spec (A-V1); derived Clone/PartialEq/Default field-wise (A-D1, not verified); iterators Iter/IterMut are macro-generated closures and are not under contract.',
        'technique': 'contract-based deductive verification (Verus, real bodies extracted per run) + Kani layout harnesses',
    },
    'C04': {
        'text': 'Unbounded deductive proof (Verus) of contracts on the verbatim bodies of StripedSequence::configure_wrap/configure/Index/count_symbol(s) and Stripe::stripe/stripe_into: for all lengths, contents, column counts and call histories the matrix is the column-major striping of the sequence, look-ahead rows are the shifted rows, and indexing/counting agree with the linear sequence. AVX2 striping is only covered by a bounded Kani stand-in (thorough tier, reported under coverage.bounded, never counted as discharged).',
        'design_ref': 'DESIGN.md section 5, C04',
        'note': 'Trusted: Verus/Z3; GenericArray ~ [T;N] (A-GA1); typenum constants (A-TN1); extraction desugarings R1 (enumerate) logged in evidence; DenseMatrix operations enter through contracts that are proved separately in group `dense` (C19). AVX2 kernel: bounded only.',
        'technique': 'contract-based deductive verification (Verus, real bodies extracted per run)',
    },
}
