HOOKS = {
    'guard': 'cargo feature `verif-hooks` of crate lightmotif (off by default)',
    'enable': 'harness crates under /verif depend on lightmotif with features = ["verif-hooks"]; Verus units need no hook (extraction reads the files as they are)',
    'baseline_off_cmd': 'cd /repo && cargo test --workspace --no-fail-fast --offline',
    'source_commits': ['6984f07'],
    'add_only': True,
}
NOTES = 'Exit codes of ./check: 0 all obligations discharged; 1 VIOLATION (a refuted postcondition of a unit, a failing Kani harness, a native disagreement with the spec function, or a refuted obligation inside a body together with a concrete failing input - and not recorded as a known finding); 2 undecided (lost anchor, changed signature, unsupported construct, rlimit, tool crash, or an obligation inside a body that no longer verifies while no failing input is found) - never an alarm. See DESIGN.md.'

PENDING = 'check not built yet in this session (planned in DESIGN.md section 5)'
NOT_APPLICABLE = {
    
    
    'C11': 'numerical accuracy of a 1000-bin f32 convolution against an exact enumeration over K^M words: floats are uninterpreted in Verus and the convolution is out of reach of CBMC; no contract within reach expresses or decides it (DESIGN.md 5/C11)',
    'C12': 'HashMap<i64,f64> dynamic programming bounded by exact tail probabilities of the true score distribution: a protocol-level real-number argument (TFM-PVALUE paper), not expressible over the real code with Verus (opaque floats, no HashMap iteration specs) or Kani (unbounded loops over float maps) (DESIGN.md 5/C12)',
    'C13': 'same algorithm and obstacle as C12 (score thresholds from the same f64 HashMap recurrences) (DESIGN.md 5/C13)',
    'C17': 'every clause is about values crossing the CPython FFI (PyDict iteration, extract, Py<..> cells, GIL release, transmuted self-referential scanner); neither Verus nor Kani can model PyO3/CPython; the core-side halves are the contracts of C01-C03, C07, C09, C10, C14 (DESIGN.md 5/C17)',
}

CHECKS = {
    'C06': {
        'text': 'Two parts. Safe code (unbounded): every function under contract for C01-C05, C07-C10, C16, C19 is proved by Verus to perform no out-of-bounds index, division by zero, integer overflow or unwrap of None for all inputs satisfying its (weakest, code-derived) precondition, and callers are proved to establish those preconditions - this is where the scanner defects D1/D2 surfaced. Unsafe code (BOUNDED, never counted as discharged): Kani harnesses run the real AVX2/SSE2 encoders, AVX2 u8 max/argmax, AVX2 u8 scoring, AVX2 f32 scoring (M = 1), AVX2 striping (one block) and the unsafe DenseMatrix API with pointer-safety checks and alignment assertions inside the models of aligned loads/stores; this is where the out-of-bounds block load of stripe_avx2 (D4) was found. Sequences of calls on unsafe kernels, the SSE2 scoring/argmax kernels, the f32 max/argmax kernels, the protein gather kernel and NEON are not covered.',
        'design_ref': 'DESIGN.md section 5, C06; section 11',
        'note': 'Trusted: Verus/Z3, Kani/CBMC, intrinsic models (A-X1), GenericArray ~ [T;N]. The bounded part explores single calls on small inputs only.',
        'technique': 'contract-based deductive verification (Verus panic-freedom obligations on real bodies) + bounded Kani pointer-safety harnesses on the real unsafe kernels',
    },
    'C16': {
        'text': 'Unbounded deductive proof (Verus) on the verbatim bodies of BitVec::{test,set,unset,count,len}, BitVec::{zeros,ones}, Sampler::{_new, exclude_sequence, include_sequence, select_holdout, update_holdout, count_matrix, background, prepare_pssm} and Iterator::next for Sampler: the representation invariant "motif count matrix = counts of the width-long windows at the starts of the active sequences; background counts = symbol counts of those sequences outside their windows; every start leaves the window inside its sequence; active.count is the number of active sequences" is established by Sampler::_new (induction base) and preserved by every update from an arbitrary state satisfying it (hence at every step of every run, by induction), including all u32/usize underflow/overflow obligations (which depend on the order of the two background loops); next() reports the counts of the alignment without the held-out sequence; update_holdout is proved to draw the new start from exactly the L-w+1 valid positions (from the contracts of Score::score_into and StripedScores::iter proved for C01 and the assumed contract of the WeightedIndex type of rand). Random draws and the float scoring step enter through assumed contracts.',
        'design_ref': 'DESIGN.md section 5, C16',
        'note': 'Trusted: Verus/Z3; rand contracts (A-R1, A-R4), the dispatched f32 score_into contract (A-DISP4), to_freq / into_scoring row counts (A-F9a/b), derived Clone (A-CLONE), Background::from_counts/default (A-BG1/2), the cached counts of SamplerData::new (a map/collect chain, not extractable); rand adapters of _new (A-R5, A-R6, A-W9). Determinism clause: argued, not proved.',
        'technique': 'contract-based deductive verification (Verus, real bodies extracted per run): representation invariant + frame conditions',
    },
    'C14': {
        'text': 'Reader layer of all four formats and three of the four matrix builders: unbounded deductive proof (Verus) on the verbatim bodies of jaspar::Reader::{new, next}, jaspar16::Reader::{new, next}, transfac::Reader::{new, next}, uniprobe::Reader::{new, next} against an abstract pending-text state (buffered text + rest of the stream), and of build_matrix in jaspar/jaspar16/uniprobe parse.rs. JASPAR: a successful next() hands the parser a prefix of the pending text and removes exactly the consumed prefix (consecutive gap-free slices, in order, independent of chunking and of buffer compaction). TRANSFAC: next() hands the grammar exactly the first entry of the pending text (all lines through the first line starting with "//"), removes exactly that, and returns None only when nothing is pending; new() consumes nothing or exactly the VV header entry. UniPROBE: the identifier is parsed from the first non-blank pending line, the columns from the following lines that parse as columns (blank lines skipped), exactly those lines are removed, None only when only blank lines were pending. build_matrix: every entry is stored in the row of its position and the column of its symbol, every other cell is zero, and a table is refused only for ragged columns or a repeated symbol. The nom grammars (and the TRANSFAC matrix construction, which lives inside one) are NOT proved; they enter through assumed contracts and are exercised by the native sweep (all four formats, generated files with 1..120 records and up to 106 positions, 8 buffer capacities).',
        'design_ref': 'DESIGN.md section 5, C14; section 11.7',
        'note': 'Trusted: Verus/Z3; std read_until / read_line / from_utf8 / copy_within / String contracts (A-IO1, A-IO1L, A-UTF8, A-S1, A-V3); the nom grammar contracts (A-NOM1..7, unverified). Field-level fidelity of the text fields ("as written") is NOT decided by the proof.',
        'technique': 'contract-based deductive verification (Verus, real bodies extracted per run) with an abstract pending-text invariant; native sweep as bounded cross-check',
    },
    'C15': {
        'text': 'Unbounded deductive proof (Verus) that the reader layer of all four formats - jaspar, jaspar16, transfac, uniprobe Reader::{new, next} - and the three build_matrix functions never panic and always return, for every byte stream and chunking, from representation invariants preserved by every call (so the reader stays usable after an error): slice ranges, usize arithmetic, truncate / copy_within (JASPAR); the String slicing offset `last` in range and on a UTF-8 character boundary, `last += n` without overflow, termination of both read loops (TRANSFAC); termination of the three nested loops of uniprobe next() (the column loop needs the assumed fact that the column grammar rejects the empty line); every matrix index inside the matrix (build_matrix). The four defects found (empty input underflow, unimplemented!() on ragged rows, input[0] on an empty column list, unreachable!() via a streaming combinator) were reproduced natively and fixed. The nom grammars themselves: bounded native sweep only (every prefix and thousands of mutations of generated files, 3 buffer capacities).',
        'design_ref': 'DESIGN.md section 5, C15; section 8 (D6a-d fixed); section 11.7',
        'note': 'Trusted: as C14 (read_line may fail on invalid UTF-8: buffer unchanged, stream advanced). A consumer that stops at the first error/None terminates because each next() is proved to terminate (decreases clauses on every loop).',
        'technique': 'contract-based deductive verification (Verus, real bodies extracted per run); native sweep as bounded cross-check',
    },
    'C18': {
        'text': 'Partial (pure fragments): deductive proof (Verus) on the verbatim bodies of {Count,Weight,Scoring}Matrix.__getitem__, EncodedSequence.__getitem__/__len__, StripedScores.__getitem__/__len__ (all isize indices: in-range of either sign returns the right element, everything else IndexError, and no out-of-range index ever reaches the backing matrix, i.e. no panic), and of the shape/stride computations in ScoringMatrix::new, From<StripedSequenceData>, From<StripedScores<f32>> against the buffer-protocol addressing rule. PyO3 types are shells; the live behaviour is cross-checked natively by an embedded CPython (pyreplay crate, thorough tier and on any failure).',
        'design_ref': 'DESIGN.md section 5, C18; section 8 (defects D7a, D7b, D7c fixed; D7d recorded)',
        'note': 'Trusted: Verus/Z3; PyO3 shells (A-PY0..2), buffer-protocol addressing (A-PY1). Not covered: memoryview/tolist at run time beyond the native sweep, pointer lifetime across configure(), stale cached shape (D7d).',
        'technique': 'contract-based deductive verification (Verus, real bodies extracted per run) with PyO3 shells; native embedded-CPython replay',
    },
    'C03': {
        'text': 'Unbounded deductive proof (Verus) of Scanner::max on its verbatim body (initial best among buffered hits, block loop, candidate loop with the running best and its 8-bit pruning bound): returns None exactly when no un-consumed position scores >= threshold; otherwise a pending position, with its exact score, that is >= the score of every pending position. The invariant ties the pruning bound to the byte image of a value the best score dominates; the two places where the original code broke that (first candidate not compared with the threshold; bound set to the rounded-up byte score) were found as failing obligations, reproduced natively and fixed. Holds for all block sizes and all prefixes of next() calls because it is stated over the abstract pending set.',
        'design_ref': 'DESIGN.md section 5, C03; section 8 (defects D1, D2, D9, D10 fixed)',
        'note': 'Trusted: Verus/Z3; float order hypotheses (A-F2) and the general C08 pre-filter hypothesis (A-F4) are assumptions of the contract (cfg.ord_ok); iterator-chain wrapper buffered_best (A-ITER1); contracts of the dispatched u8 pipeline (A-DISP); extraction rules R4v, R6, W2, S2.',
        'technique': 'contract-based deductive verification (Verus, real body extracted per run) with an abstract pending-set invariant',
    },
    'C02': {
        'text': 'Unbounded deductive proof (Verus) of Scanner::next on its verbatim body (while loop over blocks + loop over candidate cells): from any state satisfying the representation invariant, a call returns Some(h) where h was pending, is a position in [0, L-M] scoring >= threshold, carries its exact left-to-right f32 score, and is the one element removed from the pending set; or None when the pending set is empty. By induction over calls (histories quantifier) exhaustion yields exactly the hit set, each once, for all sequences, matrices, thresholds, block sizes >= 1 and call interleavings, with no panic (all unwrap/index/overflow obligations discharged for L < M, L = 0, blocks at the wrap-row boundary). Completeness rests on the assumed 8-bit pre-filter property (C08 float half). Natively cross-checked by the replay crate (thorough tier).',
        'design_ref': 'DESIGN.md section 5, C02; section 8 (defects D1, D2 fixed)',
        'note': 'Trusted: Verus/Z3; contracts of the dispatched u8 kernel / max / threshold (A-DISP1..3: generic arm proved modulo overflow, AVX2 arm bounded); C08 float half (A-F4); no-NaN hypothesis; extraction rules R4v, W2 logged. Dispatcher arms other than the contract are not distinguished. Python binding: C17.',
        'technique': 'contract-based deductive verification (Verus, real body extracted per run) with an abstract pending-set invariant',
    },
    'C10': {
        'text': 'Unbounded deductive proof (Verus) on the verbatim bodies of {Count,Frequency,Weight,Scoring}Matrix::reverse_complement (out[i][k] == m[M-1-i][comp(k)], metadata preserved), plus machine-checked lemmas: rc(rc(M)) == M and the strand lemma (addend j of score(rc M, rc s, L-M-i) is addend M-1-j of score(M, s, i), i.e. equality up to summation order). Complement table facts by a complete Kani harness over the 5 nucleotides.',
        'design_ref': 'DESIGN.md section 5, C10',
        'note': 'Trusted: Verus/Z3, Kani; extraction rules R3 (rev+enumerate), R4 (for &s in slice). Not claimed: commutation with the count->frequency->score conversions (permuted f32 row sums), Python binding.',
        'technique': 'contract-based deductive verification (Verus) + lemmas + complete Kani table harness',
    },
    'C09': {
        'text': 'Unbounded deductive proof (Verus) on verbatim bodies of CountMatrix::from_sequences (the count matrix holds exactly the per-position occurrence counts; Err exactly when lengths differ), CountMatrix::to_freq (cell = (count + pseudocount) / row total of those sums), FrequencyMatrix::to_weight (cell = frequency / background of its column, zero where the background is zero) FrequencyMatrix::into_scoring (cell = log2(frequency / background), negative infinity where the background is zero) and Background::{new, from_counts, from_sequence, from_sequences} (new: accepted iff every entry passes the range test and the running f32 sum equals 1.0; from_counts / from_sequence: refused exactly when nothing was counted, else frequency k = count k / total, the wildcard counted only on request). IEEE arithmetic is left UNINTERPRETED: the proofs decide which operands each cell is computed from, for every matrix size and alphabet, not numeric facts. Also proved, in the same structural sense: WeightMatrix::{to_scoring_with_base, to_scoring, rescale}, FrequencyMatrix::to_scoring, the From conversions between WeightMatrix and ScoringMatrix, and a lemma that the one-step and two-step routes hold the same cells given two named float facts. The numeric clauses (rows sum to one, min/max score bounds), FrequencyMatrix::new and ScoringMatrix::{min_score, max_score} are written as iterator-adapter chains outside the verifier and are covered by the bounded native sweep only.',
        'design_ref': 'DESIGN.md section 5, C09; section 11.8',
        'note': 'Trusted: Verus/Z3; float operations uninterpreted (A-F0..2, A-W10); S1/S2 instantiations; desugaring rules R1, R4, T1, RIM, RIMm, RZR, RZE, RZM (row iterators visit rows in order: A-IT2).',
        'technique': 'contract-based deductive verification (Verus, real bodies extracted per run; floats uninterpreted); native sweep as bounded cross-check',
    },
    'C05': {
        'text': 'Unbounded deductive proof (Verus) of Encode::{encode_into, encode_raw, encode} (default impls) on verbatim bodies for every alphabet and every byte string: success iff every byte is valid, result symbol i is the symbol of byte i, failure reports the first offending byte. The per-byte table facts (from_ascii/as_ascii/as_index for Nucleotide and AminoAcid) are discharged by loop-free Kani harnesses over all 256 bytes (complete). SSE2/AVX2 encoders: bounded Kani stand-ins (thorough tier) only.',
        'design_ref': 'DESIGN.md section 5, C05',
        'note': 'Trusted: Verus/Z3, Kani/CBMC; assert_eq!/set_len wrappers (A-W3, A-V2); the link between the abstract (valid_ascii, of_ascii) pair used by Verus and the real match tables is the Kani table harness. Display round trip is covered by the table fact as_ascii(from_ascii(b)) == b, not by a Verus unit on fmt.',
        'technique': 'contract-based deductive verification (Verus) + complete Kani table harnesses',
    },
    'C01': {
        'text': 'Unbounded deductive proof (Verus) of the generic scoring pipeline on verbatim bodies: Score::{score_rows_into, score_into, score} (generic element type), StripedScores::{resize, offset, iter, Index}, scores::Iter::{new, get, len}, ScoringMatrix::score_position, and the striping units of C04; composed by machine-checked lemmas (lemma_layout, lemma_gsum_is_lsum, theorem_c01) into the property statement: exactly L-M+1 values, value i = left-to-right sum of matrix[j][sequence[i+j]], for all lengths/widths/column counts/row sub-ranges. The SSE2/AVX2 kernels and the dispatcher arms are covered only by bounded Kani stand-ins (thorough tier, never counted as discharged).',
        'design_ref': 'DESIGN.md section 5, C01',
        'note': 'Trusted: Verus/Z3; A-F0/A-F1 (f32 += total and functional); GenericArray ~ [T;N]; AsRef views; extraction rules R1/R2/W/R7 logged in evidence. NOT proved: SIMD kernels (bounded only), NEON (not compiled), numeric closeness to the exact real sum (holds by construction of the contract, which fixes the f32 summation order).',
        'technique': 'contract-based deductive verification (Verus, real bodies extracted per run) + lemmas over contracts',
    },
    'C07': {
        'text': 'Unbounded deductive proof (Verus) of Maximum::{argmax, max} and Threshold::threshold (default impls, generic element type) on verbatim bodies: None exactly on an empty matrix; the designated cell is >= every cell; max is that cell value; threshold returns exactly the cells >= t, each once. The order hypothesis is proved for u8 and assumed for NaN-free f32. AVX2/SSE2 kernels: bounded Kani stand-ins only.',
        'design_ref': 'DESIGN.md section 5, C07',
        'note': 'Trusted: Verus/Z3; A-F2 (NaN-free f32 cells are totally pre-ordered by >=); extraction rules R1, T1, CL logged. NOT proved: SIMD max/argmax (bounded only); the -inf padding clause needs float facts (A-F3) and is not claimed.',
        'technique': 'contract-based deductive verification (Verus, real bodies extracted per run)',
    },
    'C08': {
        'text': 'Proof (Verus) of the integer half only: the generic u8 kernel and DiscreteMatrix::score_position compute exactly the sum of the discretised cells when that sum fits in a byte; the no-overflow side condition is an explicit precondition (its violation by real matrices is finding D5). The float half (ceil/floor rounding in to_discrete/scale is conservative) is assumed (A-F4), so the "never lose a hit" consequence is proved only relative to that assumption.',
        'design_ref': 'DESIGN.md section 5, C08',
        'note': 'Trusted: Verus/Z3; A-F4 (f32 ceil/floor/division treated as mathematical). AVX2 saturating kernel: bounded Kani stand-in only.',
        'technique': 'contract-based deductive verification (Verus, real bodies extracted per run)',
    },
    'C19': {
        'text': 'Unbounded deductive proof (Verus) on the verbatim bodies of DenseMatrix::{new, with_capacity, resize, reserve, rows, columns, capacity, Index/IndexMut<usize>, Index/IndexMut<MatrixCoordinates>} with the real struct layout: the representation invariant is established by constructors and preserved by every operation from an arbitrary pre-state (hence for all histories); resize keeps old rows over the whole view and fills new rows with the default; index_mut changes exactly one row/cell (frame). Layout facts (stride, alignment) and the unsafe constructors are checked by Kani (complete for the listed (T,C) instances / bounded for unsafe code).',
        'design_ref': 'DESIGN.md section 5, C19',
        'note': 'Trusted: Verus/Z3; GenericArray ~ [T;N] (A-GA1); Vec::resize_with spec (A-V1); derived Clone/PartialEq/Default field-wise (A-D1, not verified); iterators Iter/IterMut are macro-generated closures and are not under contract.',
        'technique': 'contract-based deductive verification (Verus, real bodies extracted per run) + Kani layout harnesses',
    },
    'C04': {
        'text': 'Unbounded deductive proof (Verus) of contracts on the verbatim bodies of StripedSequence::configure_wrap/configure/Index/count_symbol(s) and Stripe::stripe/stripe_into: for all lengths, contents, column counts and call histories the matrix is the column-major striping of the sequence, look-ahead rows are the shifted rows, and indexing/counting agree with the linear sequence. AVX2 striping is only covered by a bounded Kani stand-in (thorough tier, reported under coverage.bounded, never counted as discharged).',
        'design_ref': 'DESIGN.md section 5, C04',
        'note': 'Trusted: Verus/Z3; GenericArray ~ [T;N] (A-GA1); typenum constants (A-TN1); extraction desugarings R1 (enumerate) logged in evidence; DenseMatrix operations enter through contracts that are proved separately in group `dense` (C19). AVX2 kernel: bounded only.',
        'technique': 'contract-based deductive verification (Verus, real bodies extracted per run)',
    },
}
