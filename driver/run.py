"""Verification driver (see /verif/check and DESIGN.md section 3.4)."""
import concurrent.futures as cf
import hashlib
import json
import os
import re
import shutil
import subprocess
import sys
import time

VERIF = os.path.dirname(os.path.dirname(os.path.abspath(__file__)))
sys.path.insert(0, os.path.join(VERIF, 'extract'))
import extract  # noqa: E402
from rustlex import mask, match_close  # noqa: E402
import props  # noqa: E402

BUILD = os.path.join(VERIF, 'build')
EVID = os.path.join(VERIF, 'evidence')
REPLAYS = os.path.join(VERIF, 'replays')
REPO = os.environ.get('VERIF_REPO', '/repo')

# verifier messages that are definite refutations of an obligation (everything else is "undecided")
DEFINITE = [
    'postcondition not satisfied', 'precondition not satisfied', 'precondition not met',
    'assertion failed', 'possible arithmetic underflow/overflow', 'possible division by zero',
    'invariant not satisfied', 'index out of bounds', 'possible bit shift underflow/overflow',
    'decreases not satisfied', 'could not prove termination', 'loop invariant', 'unreachable',
    'recommendation not met',
]
UNDECIDED_MARKS = ['rlimit', 'Resource limit', 'timed out', 'timeout']


def log(*a):
    print(*a, file=sys.stderr, flush=True)


# ------------------------------------------------------------------------------------------------
# Verus

def fn_spans(path):
    """(name, first_line, last_line) of every fn with a body in a generated file."""
    text = open(path).read()
    m = mask(text)
    spans = []
    for mm in re.finditer(r'\bfn\s+(\w+)', m):
        j = mm.end()
        body = None
        while j < len(m):
            ch = m[j]
            if ch in '([':
                j = match_close(m, j)
            elif ch == '{':
                body = j
                break
            elif ch == ';':
                break
            j += 1
        if body is None:
            continue
        try:
            close = match_close(m, body)
        except ValueError:
            continue
        spans.append((mm.group(1), text.count('\n', 0, mm.start()) + 1, text.count('\n', 0, close) + 1))
    return spans


def enclosing_fn(spans, line):
    best = None
    for name, a, b in spans:
        if a <= line <= b and (best is None or a >= best[1]):
            best = (name, a, b)
    return best[0] if best else None


def run_verus(group):
    t0 = time.time()
    try:
        info = extract.generate(group, BUILD)
    except extract.ExtractError as e:
        return {'group': group, 'status': 'undecided', 'reason': 'extract: %s' % e, 'wall_s': time.time() - t0}
    out = info['out']
    cmd = ['verus', os.path.basename(out), '--triggers-mode', 'silent', '--output-json', '--time',
           '--error-format=json', '--rlimit', str(props.RLIMIT), '--multiple-errors', '4']
    try:
        p = subprocess.run(cmd, cwd=BUILD, capture_output=True, text=True, timeout=props.VERUS_TIMEOUT)
    except subprocess.TimeoutExpired:
        return {'group': group, 'status': 'undecided', 'reason': 'verus timeout', 'info': info, 'wall_s': time.time() - t0}
    res = {'group': group, 'info': info, 'cmd': ' '.join(cmd), 'wall_s': time.time() - t0, 'rc': p.returncode}
    try:
        js = json.loads(p.stdout)
    except Exception:
        js = None
    diags = []
    for ln in p.stderr.split('\n'):
        ln = ln.strip()
        if ln.startswith('{'):
            try:
                diags.append(json.loads(ln))
            except Exception:
                pass
    res['raw_stderr_tail'] = p.stderr[-2000:] if not diags else ''
    spans = fn_spans(out)
    gen_lines = open(out).read().split('\n')
    # ghost regions (proof steps inserted by the extractor) and proof fns
    ghost_lines = set()
    inside = False
    for n, gl in enumerate(gen_lines, 1):
        if gl.strip() == '// GHOST-BEGIN':
            inside = True
        elif gl.strip() == '// GHOST-END':
            inside = False
        elif inside:
            ghost_lines.add(n)
    proof_fns = set(m.group(1) for m in re.finditer(r'\bproof\s+fn\s+(\w+)', '\n'.join(gen_lines)))
    errors = []
    compile_errors = []
    for d in diags:
        if d.get('level') != 'error':
            continue
        msg = d.get('message', '')
        if msg.startswith('aborting due to'):
            continue
        prim = [s for s in d.get('spans', []) if s.get('is_primary')]
        line = prim[0]['line_start'] if prim else 0
        # the location *inside the body* (for a failed postcondition the primary span is the ensures clause)
        sec = [s for s in d.get('spans', []) if not s.get('is_primary')]
        fn = enclosing_fn(spans, line)
        if fn is None and sec:
            fn = enclosing_fn(spans, sec[0]['line_start'])
        text = gen_lines[line - 1].strip() if 0 < line <= len(gen_lines) else ''
        e = {'message': msg, 'line': line, 'fn': fn, 'text': text, 'rendered': d.get('rendered', '')[:1500]}
        if d.get('code') or not any(k in msg for k in DEFINITE):
            if any(k in msg for k in UNDECIDED_MARKS):
                e['class'] = 'resource'
            else:
                e['class'] = 'compile'
            compile_errors.append(e)
        else:
            e['class'] = 'refuted'
            # a refuted *proof step* (ghost assert / lemma-call precondition inside inserted ghost text, or anything inside a
            # proof fn) is not by itself a refutation of the property: it needs a native failing input to count
            body_lines = [sp['line_start'] for sp in d.get('spans', [])]
            in_ghost = line in ghost_lines and ('assertion failed' in msg or 'precondition not satisfied' in msg)
            e['proof_step'] = bool(in_ghost or (fn in proof_fns))
            # obligations INSIDE a body (loop invariants, overflow / bounds / division side conditions, callee preconditions, termination)
            # are the proof's own structure: after a harmless restructuring (a hoisted local, a re-indexed loop) they can fail although
            # the contract still holds. Only the unit's own postcondition is a statement taken from the property.
            e['internal'] = 'postcondition not satisfied' not in msg
            errors.append(e)
    res['errors'] = errors
    res['compile_errors'] = compile_errors
    vr = (js or {}).get('verification-results', {})
    res['verified'] = vr.get('verified', 0)
    res['verus_errors'] = vr.get('errors', 0)
    res['vir_error'] = vr.get('encountered-vir-error', False)
    fb = []
    smt_ms = 0
    try:
        for mt in js['times-ms']['smt']['smt-run-module-times']:
            for f in mt.get('function-breakdown', []):
                fb.append({'function': f['function'], 'success': f['success'], 'time_ms': f['time'], 'rlimit': f.get('rlimit')})
        smt_ms = js['times-ms']['smt']['total']
        res['verus_total_ms'] = js['times-ms']['total']
    except Exception:
        pass
    res['functions'] = fb
    res['smt_ms'] = smt_ms
    if js is None or not vr:
        res['status'] = 'undecided'
        res['reason'] = 'verus produced no result (crash or compile error): ' + (compile_errors[0]['message'] if compile_errors else p.stderr[-300:])
    elif compile_errors:
        res['status'] = 'undecided'
        res['reason'] = 'generated unit does not compile / resource limit: ' + compile_errors[0]['message'][:200]
    else:
        res['status'] = 'done'
    return res


# ------------------------------------------------------------------------------------------------
# Kani

def parse_kani_segment(seg):
    r = {}
    m = re.search(r'\*\* (\d+) of (\d+) failed', seg)
    if 'VERIFICATION:- SUCCESSFUL' in seg:
        r['status'] = 'pass'
        r['checks'] = int(m.group(2)) if m else 0
    elif 'VERIFICATION:- FAILED' in seg:
        r['status'] = 'fail'
        r['checks'] = int(m.group(2)) if m else 0
        r['failed'] = re.findall(r'Failed Checks: (.*)', seg)[:10]
        r['tail'] = seg[-3000:]
        if r['failed'] and all('not currently supported' in f or 'unsupported' in f.lower() for f in r['failed']):
            r['status'] = 'tool-limit'
        if 'unwinding assertion' in ' '.join(r['failed']) and len([f for f in r['failed'] if 'unwinding' not in f]) == 0:
            r['status'] = 'tool-limit'
    else:
        r['status'] = 'crash'
        r['tail'] = seg[-1500:]
    ms = re.search(r'Verification Time: ([\d.]+)s', seg)
    if ms:
        r['solver_s'] = float(ms.group(1))
    return r


def run_kani_batch(hs, timeout):
    """Run several harnesses in ONE `cargo kani` invocation (one build). Returns a list of result dicts."""
    if not hs:
        return []
    t0 = time.time()
    crate = os.path.join(VERIF, 'kani')
    env = dict(os.environ)
    env['CARGO_NET_OFFLINE'] = 'true'
    env['CARGO_TARGET_DIR'] = os.path.join(BUILD, 'kani-target')
    shutil.copyfile(os.path.join(REPO, 'Cargo.lock'), os.path.join(crate, 'Cargo.lock'))
    cmd = ['cargo', 'kani', '-Z', 'function-contracts', '-Z', 'stubbing']
    for h in hs:
        cmd += ['--harness', h['name']]
    try:
        p = subprocess.run(cmd, cwd=crate, capture_output=True, text=True, timeout=timeout, env=env)
        out = p.stdout + '\n' + p.stderr
        timed_out = False
    except subprocess.TimeoutExpired as e:
        out = (e.stdout.decode('utf8', 'replace') if isinstance(e.stdout, bytes) else (e.stdout or ''))
        timed_out = True
        subprocess.run(['pkill', '-f', 'cbmc'], capture_output=True)
    segs = {}
    parts = re.split(r'Checking harness ([\w:]+)\.\.\.', out)
    for i in range(1, len(parts) - 1, 2):
        segs[parts[i].split('::')[-1]] = parts[i + 1]
    res = []
    for h in hs:
        r = {'harness': h['name'], 'kind': h['kind'], 'bound': h.get('bound', ''), 'cmd': ' '.join(cmd), 'wall_s': round(time.time() - t0, 1)}
        seg = segs.get(h['name'])
        if seg is None:
            r['status'] = 'timeout' if timed_out else 'crash'
            r['tail'] = out[-1500:]
        else:
            r.update(parse_kani_segment(seg))
            if r['status'] == 'crash' and timed_out:
                r['status'] = 'timeout'
        res.append(r)
    return res


def run_kani(h, tier):
    return run_kani_batch([h], h.get('timeout', 600))[0]


# ------------------------------------------------------------------------------------------------
# native replay / search crate

def build_replay(which='replay'):
    crate = os.path.join(VERIF, which)
    if not os.path.isdir(crate):
        return None
    env = dict(os.environ)
    env['CARGO_NET_OFFLINE'] = 'true'
    env['CARGO_TARGET_DIR'] = os.path.join(BUILD, which + '-target')
    shutil.copyfile(os.path.join(REPO, 'Cargo.lock'), os.path.join(crate, 'Cargo.lock'))
    p = subprocess.run(['cargo', 'build', '--release', '--offline', '-q'], cwd=crate, capture_output=True, text=True, env=env, timeout=900)
    if p.returncode != 0:
        log(which + ' crate failed to build:\n' + p.stderr[-2000:])
        return None
    return os.path.join(env['CARGO_TARGET_DIR'], 'release', which)


def run_search(binary, pid, unit, tier, seed):
    """Ask the native crate for a failing input of <unit> (exhaustive small-input search against the naive spec)."""
    if binary is None:
        return None
    # the thorough sweep under three seeds: a refuted obligation deserves a longer look for a concrete failing input
    for sd in (seed, seed + 1, seed + 2):
        try:
            p = subprocess.run([binary, 'search', pid, unit, 'thorough', str(sd)], capture_output=True, text=True, timeout=900)
        except subprocess.TimeoutExpired:
            return None
        for ln in p.stdout.split('\n'):
            if ln.startswith('FAIL '):
                try:
                    return json.loads(ln[5:])
                except Exception:
                    return {'raw': ln[5:]}
    return None


# ------------------------------------------------------------------------------------------------

def load_known():
    known, fixed = [], []
    p = os.path.join(VERIF, 'known_findings.txt')
    if os.path.exists(p):
        for ln in open(p):
            ln = ln.strip()
            if ln.startswith('known:'):
                kv = dict(re.findall(r'(\w+)=(\S+)', ln))
                kv['line'] = ln
                known.append(kv)
            elif ln.startswith('fixed:'):
                fixed.append(ln)
    return known, fixed


def obligation_id(group, e, info):
    """Stable name of a failed obligation: <unit or fn>/<kind>/<hash of the clause text>."""
    unit = None
    for u in info.get('units', []):
        if u['gen_lines'][0] <= e['line'] <= u['gen_lines'][1]:
            unit = u['id']
    name = unit or e['fn'] or group
    kind = re.sub(r'[^a-z]+', '-', e['message'].lower()).strip('-')[:40]
    clause = re.sub(r'\s+', '', e['text'])
    return '%s/%s/%s' % (name, kind, hashlib.sha1(clause.encode()).hexdigest()[:8])


def main(argv):
    if not argv:
        print(__doc__)
        return 2
    pid = argv[0]
    tier = os.environ.get('VERIF_TIER', 'quick')
    replay_file = None
    i = 1
    while i < len(argv):
        if argv[i] == '--tier':
            tier = argv[i + 1]
            i += 2
        elif argv[i] == '--replay':
            replay_file = argv[i + 1]
            i += 2
        else:
            i += 1
    seed = int(os.environ.get('VERIF_SEED', '0') or 0)
    if pid not in props.PROPS:
        log('property %s is not claimed (see MANIFEST.not_applicable)' % pid)
        return 2
    P = props.PROPS[pid]
    os.makedirs(BUILD, exist_ok=True)
    os.makedirs(EVID, exist_ok=True)
    os.makedirs(REPLAYS, exist_ok=True)

    if replay_file:
        binary = build_replay(P.get('native') if isinstance(P.get('native'), str) else 'replay')
        if binary is None:
            return 2
        p = subprocess.run([binary, 'replay', replay_file])
        return p.returncode

    t0 = time.time()
    groups = P['verus']
    kani = [h for h in P.get('kani', []) if tier == 'thorough' or h.get('tier', 'quick') == 'quick']
    results = []
    kres = []
    with cf.ThreadPoolExecutor(max_workers=props.JOBS) as ex:
        futs = [ex.submit(run_verus, g) for g in groups]
        kq = [h for h in kani if h['kind'] == 'Kinf']
        kb = [h for h in kani if h['kind'] != 'Kinf']
        kf = [ex.submit(run_kani_batch, kq, 900)] + [ex.submit(run_kani_batch, [h], h.get('timeout', 600)) for h in kb]
        results = [f.result() for f in futs]
        kres = [r for f in kf for r in f.result()]

    known, fixed = load_known()
    undecided = []
    violations = []
    known_hits = []
    obligations = 0
    discharged = 0
    functions = []
    units = []
    trusted = set()
    rewrites = []
    canaries = []
    smt_ms = 0
    samples = []
    for r in results:
        g = r['group']
        if r['status'] != 'done':
            undecided.append('%s: %s' % (g, r.get('reason', '?')))
            continue
        info = r['info']
        smt_ms += r['smt_ms']
        # canaries: every fn named canary_* must have at least one refutation
        can_names = [n for (n, a, b) in fn_spans(info['out']) if n.startswith('canary_')]
        failed_fns = set(e['fn'] for e in r['errors'])
        for c in can_names:
            ok = c in failed_fns
            canaries.append({'group': g, 'canary': c, 'failed_as_required': ok})
            if not ok:
                undecided.append('%s: vacuity canary %s was NOT refuted (contradictory precondition?)' % (g, c))
        real_errors = [e for e in r['errors'] if not (e['fn'] or '').startswith('canary_')]
        n_can_queries = sum(1 for f in r['functions'] if f['function'].split('::')[-1].startswith('canary_'))
        obligations += r['verified'] + len(set(e['fn'] for e in real_errors))
        discharged += r['verified']
        for f in r['functions']:
            if not f['function'].split('::')[-1].startswith('canary_'):
                functions.append({'group': g, **f, 'backend': 'verus/z3'})
        for u in info['units']:
            units.append({k: u[k] for k in ('id', 'file', 'line', 'fn', 'body_sha256', 'loops')})
            rewrites.extend(u['rewrites'])
        for s in info['assume_sites']:
            trusted.add(s['tag'] or ('UNTAGGED:' + s['text']))
        for e in real_errors:
            oid = obligation_id(g, e, info)
            rec = {'obligation': oid, 'group': g, 'message': e['message'], 'at': e['text'], 'fn': e['fn'], 'rendered': e['rendered'], 'proof_step': e.get('proof_step', False), 'internal': e.get('internal', False)}
            k = [x for x in known if x.get('property') == pid and x.get('obligation') == oid]
            if k:
                known_hits.append((k[0], rec))
            else:
                violations.append(rec)
        if len(samples) < 6:
            for f in r['functions'][:3]:
                samples.append({'obligation': f['function'], 'backend': 'verus/z3', 'result': 'verified' if f['success'] else 'refuted', 'time_ms': f['time_ms']})

    bounded = []
    for k in kres:
        if k['kind'] == 'Kinf':
            if k['status'] == 'pass':
                obligations += k.get('checks', 1)
                discharged += k.get('checks', 1)
                functions.append({'group': 'kani', 'function': k['harness'], 'success': True, 'time_ms': int(k['wall_s'] * 1000), 'backend': 'kani/cbmc (loop-free, complete)'})
                samples.append({'obligation': k['harness'], 'backend': 'kani/cbmc', 'result': 'pass', 'checks': k.get('checks')})
            elif k['status'] == 'fail':
                oid = 'kani/%s' % k['harness']
                rec = {'obligation': oid, 'group': 'kani', 'message': '; '.join(k.get('failed', [])), 'at': k['harness'], 'fn': k['harness'], 'rendered': k.get('tail', '')}
                kk = [x for x in known if x.get('property') == pid and x.get('obligation') == oid]
                if kk:
                    known_hits.append((kk[0], rec))
                else:
                    violations.append(rec)
                obligations += k.get('checks', 1)
            else:
                undecided.append('kani %s: %s' % (k['harness'], k['status']))
        else:
            b = {kk: k.get(kk) for kk in ('harness', 'status', 'bound', 'wall_s', 'checks', 'solver_s')}
            if k['status'] == 'fail':
                oid = 'kani/%s' % k['harness']
                rec = {'obligation': oid, 'group': 'kani-bounded', 'message': '; '.join(k.get('failed', [])), 'at': k['harness'], 'fn': k['harness'], 'rendered': k.get('tail', '')}
                kk = [x for x in known if x.get('property') == pid and x.get('obligation') == oid]
                if kk:
                    known_hits.append((kk[0], rec))
                else:
                    violations.append(rec)
            elif k['status'] != 'pass':
                b['status'] = 'bounded: not covered (%s)' % k['status']
            bounded.append(b)

    # native bounded sweep: the real compiled code against naive re-implementations of the spec functions, small inputs,
    # every backend (labelled bounded; never counted in obligations/discharged)
    native = None
    binary = None
    if P.get('native'):
        which = P.get('native') if isinstance(P.get('native'), str) else 'replay'
        binary = build_replay(which)
        if binary is None:
            undecided.append('native %s crate does not build' % which)
        else:
            try:
                p = subprocess.run([binary, 'sweep', pid, tier, str(seed)], capture_output=True, text=True, timeout=3000)
                lines = p.stdout.strip().split('\n')
                native = {'cmd': '%s sweep %s %s %d' % (which, pid, tier, seed), 'rc': p.returncode, 'summary': lines[-1][:300] if lines else ''}
                nfail = 0
                for ln in lines:
                    if ln.startswith('FAIL '):
                        inp = ln[5:]
                        try:
                            unit = json.loads(inp).get('unit', '?')
                        except Exception:
                            unit = '?'
                        oid = 'native/' + unit
                        rec = {'obligation': oid, 'group': 'native', 'message': 'real code disagrees with the spec function', 'at': inp[:200], 'fn': oid, 'rendered': inp, 'input': inp}
                        kk = [x for x in known if x.get('property') == pid and x.get('obligation') == oid]
                        if kk:
                            known_hits.append((kk[0], rec))
                        else:
                            violations.append(rec)
                            nfail += 1
                mcases = re.search(r'cases=(\d+)', native['summary'])
                bounded.append({'harness': 'native sweep (%s)' % which, 'status': 'pass' if nfail == 0 else 'fail',
                                'bound': 'small-input sweep, %s cases, tier %s: %s' % (mcases.group(1) if mcases else '?', tier, P.get('native_bound', 'see replay/src')),
                                'wall_s': None, 'checks': int(mcases.group(1)) if mcases else None, 'solver_s': None})
                if p.returncode not in (0, 1):
                    if p.returncode < 0 and P.get('crash_is_violation'):
                        # the process driving the REAL library through its safe API was killed by a signal (SIGSEGV, SIGABRT from a
                        # corrupted heap, SIGBUS): for the memory-safety property that is the violation itself
                        tail = (p.stderr or '')[-600:]
                        rec = {'obligation': 'native/crash_signal_%d' % (-p.returncode), 'group': 'native', 'message': 'the native sweep process was killed by signal %d while driving the real code through the safe API' % (-p.returncode),
                               'at': tail[-200:], 'fn': 'native/crash', 'rendered': tail, 'input': json.dumps({'unit': 'crash', 'signal': -p.returncode, 'stderr_tail': tail})}
                        violations.append(rec)
                    else:
                        undecided.append('native sweep crashed (rc=%s)' % p.returncode)
            except subprocess.TimeoutExpired:
                native = {'cmd': 'sweep %s' % pid, 'rc': None, 'summary': 'timeout'}
                bounded.append({'harness': 'native sweep', 'status': 'bounded: not covered (timeout)', 'bound': '', 'wall_s': None, 'checks': None, 'solver_s': None})

    # verdict -----------------------------------------------------------------
    rc = 0
    out_lines = []
    for k, rec in known_hits:
        out_lines.append('KNOWN-FINDING: property=%s %s (%s)' % (pid, k.get('obligation'), k['line'].split(' ', 3)[-1][:200]))
    replay_paths = []
    for v in violations:
        inp = None
        if 'input' in v:
            try:
                inp = json.loads(v['input']) if isinstance(v['input'], str) else v['input']
            except Exception:
                inp = v['input']
        elif P.get('native'):
            binary = binary or build_replay(P.get('native') if isinstance(P.get('native'), str) else 'replay')
            unit = v['obligation'].split('/')[0]
            inp = run_search(binary, pid, unit, tier, seed)
        if v.get('proof_step') and not inp:
            undecided.append('proof step no longer verifies and no failing input was found natively: %s at `%s`' % (v['obligation'], v['at'][:100]))
            continue
        if v.get('internal') and not inp:
            undecided.append('an obligation inside the body (not the contract itself) no longer verifies and no failing input was found natively: %s at `%s`' % (v['obligation'], v['at'][:100]))
            continue
        path = os.path.join(REPLAYS, '%s-%s.json' % (pid, re.sub(r'[^A-Za-z0-9_.-]+', '_', v['obligation'])))
        json.dump({'property': pid, 'obligation': v['obligation'], 'verifier_message': v['message'], 'at': v['at'],
                   'verifier_output': v['rendered'], 'input': inp,
                   'input_raw': json.dumps(inp, separators=(',', ':')) if inp else None}, open(path, 'w'), indent=1)
        replay_paths.append(path)
        out_lines.append('VIOLATION property=%s replay=%s%s' % (pid, path, '' if inp else ' no-failing-input-found'))
        rc = 1
    if undecided and rc == 0:
        rc = 2
    if rc == 0 and obligations == 0:
        undecided.append('zero obligations generated')
        rc = 2

    wall = time.time() - t0
    ev = {
        'property_id': pid,
        'tier': tier,
        'seed': seed,
        'level': 'proof',
        'coverage': {
            'obligations': obligations,
            'discharged': discharged,
            'checker_cmd': 'verus <build/GROUP.rs> --triggers-mode silent --rlimit %d  (groups: %s)%s' % (
                props.RLIMIT, ', '.join(groups), '; cargo kani -Z function-contracts -Z stubbing --harness <H>' if kani else ''),
            'trusted_base': sorted(trusted) + P.get('trusted_extra', []),
            'samples': samples[:8],
            'functions_under_contract': units,
            'obligation_results': functions,
            'desugarings': rewrites,
            'canaries': canaries,
            'bounded': bounded,
            'solver_time_s': round(smt_ms / 1000.0 + sum(k.get('solver_s', 0) or 0 for k in kres), 2),
            'undecided': undecided,
            'known_findings_hit': [k.get('obligation') for k, _ in known_hits],
            'native_cross_check': native,
            'explanation': P.get('explanation', ''),
        },
        'assumptions': P.get('assumptions', []),
        'wall_s': round(wall, 2),
        'violations': len(replay_paths),
    }
    tmp = os.path.join(EVID, pid + '.json.tmp')
    json.dump(ev, open(tmp, 'w'), indent=1)
    os.replace(tmp, os.path.join(EVID, pid + '.json'))
    for ln in out_lines:
        print(ln)
    for u in undecided:
        print('UNDECIDED: %s' % u)
    print('%s tier=%s obligations=%d discharged=%d violations=%d known=%d undecided=%d bounded=%d wall=%.1fs rc=%d' % (
        pid, tier, obligations, discharged, len(replay_paths), len(known_hits), len(undecided), len(bounded), wall, rc))
    return rc
