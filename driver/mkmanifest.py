#!/usr/bin/env python3
"""Regenerate MANIFEST.json from driver/props.py + driver/manifest_text.py (single source of truth)."""
import json, os, sys
sys.path.insert(0, os.path.dirname(os.path.abspath(__file__)))
import props, manifest_text as T

checks = []
for pid in sorted(props.PROPS):
    t = T.CHECKS[pid]
    checks.append({
        'property_id': pid,
        'quick_cmd': './check %s --tier quick' % pid,
        'thorough_cmd': './check %s --tier thorough' % pid,
        'evidence_file': '/verif/evidence/%s.json' % pid,
        'replay_cmd_template': './check %s --replay {path}' % pid,
        'engine': 'contracts',
        'level_claimed': {'category': 'proof', 'text': t['text'], 'design_ref': t['design_ref']},
        'level_note': t['note'],
        'technique': t['technique'],
    })
na = [{'property_id': k, 'reason': v} for k, v in sorted(T.NOT_APPLICABLE.items()) if k not in props.PROPS]
m = {
    'version': 1,
    'setup_cmd': './setup.sh',
    'hooks': T.HOOKS,
    'engines': [{
        'name': 'contracts', 'path': '/verif/check',
        'serves_properties': sorted(props.PROPS),
        'kind_free_text': 'contract-based deductive verification: Verus on function bodies extracted mechanically from /repo on every run (extract/extract.py), Kani/CBMC contracts and harnesses on the real compiled crate, native replay crate for counterexamples',
    }],
    'checks': checks,
    'not_applicable': na,
    'notes': T.NOTES,
}
json.dump(m, open(os.path.join(os.path.dirname(os.path.dirname(os.path.abspath(__file__))), 'MANIFEST.json'), 'w'), indent=1)
print('MANIFEST.json written: %d checks, %d not_applicable' % (len(checks), len(na)))
