"""Which units / harnesses decide which property."""
JOBS = 12
RLIMIT = 60
VERUS_TIMEOUT = 600

A_F = 'f32 arithmetic is uninterpreted in Verus: equalities are between terms (same operands, same order), numeric facts are assumed where named'
A_E1 = 'A-E1: extraction desugarings (listed under coverage.desugarings) preserve semantics'
A_T1 = 'A-T1: Verus/Z3, Kani/CBMC and rustc are sound'

A_GA1 = 'A-GA1: generic_array::GenericArray<T,N> behaves as [T; N::USIZE]'
A_DENSE = 'dense.rs operations enter through their contracts, each proved in group `dense` (C19)'
A_STD1 = 'A-STD1: AsRef<..>::as_ref of the argument types is a pure view'
A_MEM = 'A-MEM: side conditions `rows * columns <= usize::MAX` / `length + C + 32 <= usize::MAX` (addressable memory) appear as preconditions'

PROPS = {
    'C18': {
        'verus': ['py', 'scores', 'dense'],
        'kani': [],
        'native': 'pyreplay',
        'assumptions': [A_E1, A_T1,
                        'A-PY0: PyO3 shells: PyRef<Self> ~ &Self, PyIndexError::new_err builds an IndexError, to_object converts the row it is given',
                        'A-PY1: CPython buffer protocol: element [i][j] of a 2-d view lives at buf + i*strides[0] + j*strides[1]',
                        'A-PY2: the binding data enums forward rows/columns/stride/get to dense::DenseMatrix (C19) ; get(i) with i >= rows is a Rust panic (precondition)',
                        'A-MEM: row counts and byte strides fit isize',
                        'NOT covered: the actual memoryview object, tolist(), lifetime of an exported pointer, staleness of the cached StripedSequence shape after configure() (D7d), FFI'],
        'explanation': 'pure integer logic of the bindings on verbatim bodies: index normalisation of the five __getitem__ (in range either sign -> the right element, otherwise IndexError, never an out-of-range call), __len__, and the shape/stride computations of the three buffer-exporting constructors against the buffer-protocol addressing rule',
    },
    'C03': {
        'verus': ['scan', 'pwm_score', 'maxthr'],
        'kani': [],
        'native': True,
        'assumptions': [A_E1, A_T1, A_GA1, A_DENSE, A_STD1,
                        'A-DISP1..3: contracts of the runtime-dispatched u8 pipeline (see C02)',
                        'A-F2 (hypothesis cfg.ord_ok): `>=` is a total preorder on {threshold} + {scores of valid positions} (no NaN), `>=` without `>` is symmetric, IEEE `==` implies `>=`',
                        'A-F4 / C08 in general form (hypothesis cfg.ord_ok): the byte score of a position reaches the byte image of any value its real score reaches (assumed: float rounding of to_discrete / scale)',
                        'A-ITER1: the std chain into_iter().filter(..).max_by(..) on the buffered hits returns a maximal element among those passing the filter (wrapper buffered_best, body = that chain)',
                        'S2: by-value `mut self` taken as `&mut self` (Verus lacks `mut self`)'],
        'explanation': 'Scanner::max (Iterator::max override) on its verbatim body: None iff the pending set (hits not yet consumed) is empty; otherwise a pending position with its exact score that dominates every pending position. Stated over the abstract pending set, hence independent of block size and of the prefix of next() calls.',
    },
    'C02': {
        'verus': ['scan', 'pwm_score', 'score_u8', 'maxthr'],
        'kani': [],
        'native': True,
        'assumptions': [A_E1, A_T1, A_GA1, A_DENSE, A_STD1,
                        'A-DISP1..3: the runtime-dispatched u8 pipeline (Pipeline<A, Dispatch>::{score_rows_into, max, threshold}) satisfies the saturated-sum / max / threshold contracts: proved for the generic arm modulo u8 overflow (finding D5), bounded Kani stand-in for the AVX2 arm',
                        'A-F4 / C08: the 8-bit image never under-estimates (hypothesis `cfg.ok()`): a hit reaches the byte threshold - assumed, not proved (float rounding of to_discrete / scale)',
                        'A-F: window sums of matrices with finite or -inf cells are never NaN (hypothesis of Hit::new)',
                        'A-F2: f32 comparison operators are the ones partial_cmp induces',
                        'machine arithmetic: rows + 2*block_size <= usize::MAX is a precondition',
                        'the Python entry point lightmotif.scan is C17 (not applicable)'],
        'explanation': 'Scanner::next on its verbatim body against an abstract state: pending = buffered hits + hits in rows not yet scanned. Each call removes exactly one pending position (returned with its exact score) or returns None when nothing is pending; so by induction iterating to exhaustion yields every position scoring >= threshold exactly once and nothing else, for every block size and every interleaving, without panicking (every unwrap / index / overflow obligation discharged, including L < M, L = 0 and row counts near block multiples).',
    },
    'C10': {
        'verus': ['rc'],
        'kani': [{'name': 'k_c10_complement_involution', 'kind': 'Kinf'}],
        'native': False,
        'assumptions': [A_E1, A_T1, A_GA1, A_DENSE,
                        'A-ABC2: ComplementableAlphabet::complement is a pure involution (discharged for Nucleotide by the complete Kani harness)',
                        'A-D1: derived Clone of Background is field-wise',
                        'commutation with count->frequency->score under a strand-symmetric background is NOT claimed: the row-sum term is a permuted f32 fold (needs commutativity/associativity of f32 add, A-F8)',
                        'Python reverse_complement: C17 (not applicable)'],
        'explanation': 'the four reverse_complement bodies satisfy out[i][k] == m[M-1-i][comp(k)]; lemma_rc_involution (rc twice = identity) and lemma_rc_strand (addend j of the rc score at L-M-i is addend M-1-j of the original score at i)',
    },
    'C09': {
        'verus': ['counts'],
        'kani': [],
        'native': False,
        'assumptions': [A_E1, A_T1, A_GA1, A_DENSE,
                        'S1: the generic iterator parameter of from_sequences is instantiated at &Vec<EncodedSequence<A>>',
                        'NOT under contract (iterator-adapter code that Verus cannot express, and float numerics): CountMatrix::to_freq, FrequencyMatrix::{new, to_weight, into_scoring}, WeightMatrix::{to_scoring_with_base, rescale}, ScoringMatrix::{min_score, max_score}, Background::{new, from_counts, from_sequence(s)} - so only the first clause of C09 (count matrix = occurrence counts; unequal lengths rejected) is decided'],
        'explanation': 'CountMatrix::from_sequences on its verbatim body: Err iff some sequence length differs from the first; Ok(m) holds exactly the occurrence counts',
    },
    'C05': {
        'verus': ['encode'],
        'kani': [{'name': 'k_c05_nucleotide_table', 'kind': 'Kinf'}, {'name': 'k_c05_aminoacid_table', 'kind': 'Kinf'},
                 {'name': 'k_c05_symbols_indexing', 'kind': 'Kinf'}],
        'native': False,
        'assumptions': [A_E1, A_T1, A_STD1,
                        'A-ABC1: Symbol::from_ascii is specified by (valid_ascii, of_ascii): Ok(of_ascii(c)) on valid bytes, Err(InvalidSymbol(c as char)) otherwise; discharged for Nucleotide and AminoAcid by the complete (all 256 bytes) Kani harnesses',
                        'A-W3: assert_eq! on lengths = precondition; A-V2: Vec::set_len leaves arbitrary values (memory safety of that unsafe block: Kani, bounded)',
                        'SSE2 / AVX2 encoders: bounded Kani stand-ins only'],
        'explanation': 'Encode::{encode_into, encode_raw, encode} default impls on verbatim bodies: Ok iff all bytes valid, symbol i = of_ascii(byte i), Err carries the FIRST invalid byte',
    },
    'C01': {
        'verus': ['scores', 'score', 'pwm_score', 'seq', 'stripe'],
        'kani': [],
        'native': False,
        'assumptions': [A_E1, A_T1, A_GA1, A_DENSE, A_STD1, A_MEM,
                        'A-F0/A-F1: the generic kernel is proved for every element type whose `+=` never panics and is a function of its operands; f32 is such a type (floats are otherwise uninterpreted: the contract fixes the left-to-right summation order, so "within summation error" holds by construction)',
                        'SIMD backends (avx2.rs, sse2.rs) are NOT covered by the Verus proof: bounded Kani stand-ins only (coverage.bounded); neon.rs is not compiled on this host'],
        'explanation': 'kernel contract (value in cell (r,c) = left-to-right sum over the window read down column c) + layout lemma (cell (rho, c) holds the symbol at linear position c*R+rho) + iterator contracts (exactly min(max_index, R*C) = L-M+1 values, value i = cell (i mod R, i div R)) = theorem_c01',
    },
    'C07': {
        'verus': ['maxthr', 'scores'],
        'kani': [],
        'native': False,
        'assumptions': [A_E1, A_T1, A_GA1, A_DENSE,
                        'A-F2: the order hypothesis ord_ok (reflexive, total, transitive `>=` on the cells) is PROVED for u8 (lemma_u8_ord_ok) and ASSUMED for f32 matrices without NaN',
                        'AVX2 / SSE2 max, argmax kernels: bounded Kani stand-ins only'],
        'explanation': 'generic Maximum::argmax / max and Threshold::threshold on verbatim bodies: None iff empty; designated cell dominates every cell; threshold list = exactly the cells >= t, strictly increasing in row-major order (hence no duplicates)',
    },
    'C08': {
        'verus': ['score_u8', 'pwm_score'],
        'kani': [],
        'native': False,
        'assumptions': [A_E1, A_T1, A_GA1, A_DENSE, A_STD1,
                        'A-F4: ceil / floor / division in ScoringMatrix::to_discrete and DiscreteMatrix::scale are treated as mathematical (their f32 rounding is not proved conservative) - the float half of C08 is assumed, only the integer half is proved',
                        'the u8 kernel contract carries a no-overflow precondition (sum of the window cells <= 255); whether callers meet it is finding D5'],
        'explanation': 'integer half: the generic u8 kernel and DiscreteMatrix::score_position return exactly the integer sum of the discretised cells provided that sum fits a byte',
    },
    'C19': {
        'verus': ['dense'],
        'kani': [],
        'native': False,
        'assumptions': [A_E1, A_T1,
                        'A-GA1: generic_array::GenericArray<T,N> behaves as [T; N::USIZE] (as_slice, as_mut_slice, default, index)',
                        'A-V1: std Vec::resize_with / with_capacity / reserve per vstd + one assumed specification',
                        'A-D1: derived Default/Clone/PartialEq on Row and DenseMatrix are field-wise (not verified)',
                        'Iter / IterMut (macro-generated, closure-based) and the unsafe functions uninitialized / from_rows / ravel / ravel_mut / fill are outside Verus; see coverage.bounded'],
        'explanation': 'DenseMatrix representation invariant (data.len() == rows, every row has C cells) proved preserved by every safe operation from an arbitrary pre-state, so by induction for all operation histories',
    },
    'C04': {
        'verus': ['seq', 'stripe'],
        'kani': [],
        'native': False,
        'assumptions': [A_E1, A_T1,
                        'A-GA1: generic_array::GenericArray<T,N> behaves as [T; N::USIZE]',
                        'dense.rs operations are used through their contracts, proved in group `dense` (C19)'],
        'explanation': 'Striping contracts: configure_wrap / configure / Index / count_symbol(s) / stripe / stripe_into on verbatim bodies',
    },
}
