"""Which units / harnesses decide which property."""
JOBS = 12
RLIMIT = 60
VERUS_TIMEOUT = 600

A_F = 'f32 arithmetic is uninterpreted in Verus: equalities are between terms (same operands, same order), numeric facts are assumed where named'
A_E1 = 'A-E1: extraction desugarings (listed under coverage.desugarings) preserve semantics'
A_T1 = 'A-T1: Verus/Z3, Kani/CBMC and rustc are sound'

PROPS = {
    'C19': {
        'verus': ['dense'],
        'kani': [],
        'native': False,
        'assumptions': [A_E1, A_T1,
                        'A-GA1: generic_array::GenericArray<T,N> behaves as [T; N::USIZE] (as_slice, as_mut_slice, default, index)',
                        'A-V1: std Vec::resize_with / with_capacity / reserve per vstd + one assumed specification',
                        'A-D1: derived Default/Clone/PartialEq on Row and DenseMatrix are field-wise (not verified)',
                        'Iter / IterMut (macro-generated, closure-based) and the unsafe functions uninitialized / from_rows / ravel / ravel_mut / fill are outside Verus; see coverage.bounded'],
        'explanation': 'DenseMatrix representation invariant (data.len() == rows, every row has C cells) proved preserved by every safe operation from an arbitrary pre-state, so by induction for all operation histories',
    },
    'C04': {
        'verus': ['seq', 'stripe'],
        'kani': [],
        'native': False,
        'assumptions': [A_E1, A_T1,
                        'A-GA1: generic_array::GenericArray<T,N> behaves as [T; N::USIZE]',
                        'dense.rs operations are used through their contracts, proved in group `dense` (C19)'],
        'explanation': 'Striping contracts: configure_wrap / configure / Index / count_symbol(s) / stripe / stripe_into on verbatim bodies',
    },
}
