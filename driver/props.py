"""Which units / harnesses decide which property."""
JOBS = 12
RLIMIT = 60
VERUS_TIMEOUT = 600

A_F = 'f32 arithmetic is uninterpreted in Verus: equalities are between terms (same operands, same order), numeric facts are assumed where named'
A_E1 = 'A-E1: extraction desugarings (listed under coverage.desugarings) preserve semantics'
A_T1 = 'A-T1: Verus/Z3, Kani/CBMC and rustc are sound'

PROPS = {
    'C04': {
        'verus': ['seq'],
        'kani': [],
        'native': False,
        'assumptions': [A_E1, A_T1,
                        'A-GA1: generic_array::GenericArray<T,N> behaves as [T; N::USIZE]',
                        'dense.rs operations are used through their contracts, proved in group `dense` (C19)'],
        'explanation': 'Striping contracts: configure_wrap / configure / Index / count_symbol(s) / stripe / stripe_into on verbatim bodies',
    },
}
