#!/bin/sh
# Offline setup after a fresh restore: nothing is fetched. Warm the Verus cache and pre-build harness crates.
set -e
cd "$(dirname "$0")"
mkdir -p build evidence replays
python3 extract/extract.py seq build > /dev/null 2>&1 || true
(cd build && verus seq.rs --triggers-mode silent > /dev/null 2>&1) || true
exit 0
