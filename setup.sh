#!/bin/sh
# Offline setup after a fresh restore: nothing is fetched. Warms the Verus cache and pre-builds the harness crates
# (Kani harness crate, native replay crate, embedded-CPython replay crate) so that the first check is not slow.
cd "$(dirname "$0")"
mkdir -p build evidence replays
export CARGO_NET_OFFLINE=true
python3 extract/extract.py dense build > /dev/null 2>&1 && (cd build && verus dense.rs --triggers-mode silent > /dev/null 2>&1)
for c in replay pyreplay; do
  cp /repo/Cargo.lock $c/Cargo.lock 2>/dev/null
  (cd $c && CARGO_TARGET_DIR=../build/$c-target cargo build --release --offline -q > ../build/setup-$c.log 2>&1) &
done
cp /repo/Cargo.lock kani/Cargo.lock 2>/dev/null
(cd kani && CARGO_TARGET_DIR=../build/kani-target timeout 900 cargo kani -Z function-contracts -Z stubbing --harness k_c05_symbols_indexing > ../build/setup-kani.log 2>&1) &
wait
exit 0
