// ===== spec/sampler.rs : sampler state (fields as in sampler.rs) and the C16 oracle =====
//@include spec/stripe.rs
//@include spec/scores_types.rs
//@include spec/pwm_types.rs
verus! {
pub struct BitVec { pub data: Vec<bool>, pub count: usize, pub len: usize }
pub enum SamplerMode { Zoops, Oops }

/// S1: the generic `S: AsRef<[StripedSequence<A, C>]>` instantiated at an owned list; `as_ref` is the slice view
pub struct SeqList<A: Alphabet, C: PositiveLength> { pub v: Vec<StripedSequence<A, C>> }
impl<A: Alphabet, C: PositiveLength> SeqList<A, C> {
    // ASSUME(A-STD1)
    #[verifier::external_body]
    pub fn as_ref(&self) -> (r: &[StripedSequence<A, C>]) ensures r@ == self.v@ { self.v.as_slice() }
}
pub struct SamplerData<A: Alphabet, C: PositiveLength> {
    pub sequences: SeqList<A, C>,
    pub counts: Vec<GenericArray<usize, A::K>>,
    pub c: core::marker::PhantomData<C>,
}
pub struct Dispatch;
pub struct Rng;
pub struct Sampler<'a, A: Alphabet, C: PositiveLength> {
    pub data: &'a SamplerData<A, C>,
    pub pli: Pipeline<A, Dispatch>,
    pub rng: Rng,
    pub width: usize,
    pub mode: SamplerMode,
    pub temperature: f64,
    pub seed: Vec<usize>,
    pub inertia: usize,
    pub active: BitVec,
    pub starts: Vec<usize>,
    pub motif: DenseMatrix<u32, A::K>,
    pub background_counts: GenericArray<usize, A::K>,
    pub scores: StripedScores<f32, C>,
    pub step: usize,
    pub patience: usize,
    pub last_inclusion: usize,
    pub converged: bool,
}

pub open spec fn b2i(b: bool) -> int { if b { 1 } else { 0 } }

/// number of positions p < n of a linear sequence whose symbol has index k
pub open spec fn cnt<S: Symbol>(lin: Seq<S>, n: int, k: int) -> int
    decreases n
{ if n <= 0 { 0 } else { cnt(lin, n - 1, k) + b2i(lin[n - 1].idx() == k) } }

/// number of window positions st .. st+w holding a symbol of index k
pub open spec fn wcnt<S: Symbol>(lin: Seq<S>, st: int, w: int, k: int) -> int
    decreases w
{ if w <= 0 { 0 } else { wcnt(lin, st, w - 1, k) + b2i(lin[st + w - 1].idx() == k) } }

/// abstract alignment: which sequences are in the motif, and where their windows start
pub struct Align { pub active: Seq<bool>, pub starts: Seq<usize> }

/// "the counts of the width-long windows at the reported start positions of the active sequences": cell (i, k) over the first q sequences
pub open spec fn mcnt<S: Symbol>(lins: Seq<Seq<S>>, al: Align, q: int, i: int, k: int) -> int
    decreases q
{ if q <= 0 { 0 } else { mcnt(lins, al, q - 1, i, k) + b2i(al.active[q - 1] && lins[q - 1][al.starts[q - 1] + i].idx() == k) } }

/// "the symbol counts of those sequences outside their windows", entry k over the first q sequences
pub open spec fn bcnt<S: Symbol>(lins: Seq<Seq<S>>, al: Align, w: int, q: int, k: int) -> int
    decreases q
{
    if q <= 0 { 0 } else {
        bcnt(lins, al, w, q - 1, k)
            + (if al.active[q - 1] { cnt(lins[q - 1], lins[q - 1].len() as int, k) - wcnt(lins[q - 1], al.starts[q - 1] as int, w, k) } else { 0 })
    }
}
/// total symbol count of index k over the first q sequences (bound used for the machine arithmetic of the background counts)
pub open spec fn tcnt<S: Symbol>(lins: Seq<Seq<S>>, q: int, k: int) -> int
    decreases q
{ if q <= 0 { 0 } else { tcnt(lins, q - 1, k) + cnt(lins[q - 1], lins[q - 1].len() as int, k) } }

pub open spec fn acount(active: Seq<bool>, q: int) -> int
    decreases q
{ if q <= 0 { 0 } else { acount(active, q - 1) + b2i(active[q - 1]) } }

/// the linear sequences of a data set (a function of the data set alone)
pub open spec fn data_lins<A: Alphabet, C: PositiveLength>(d: SamplerData<A, C>) -> Seq<Seq<A::Symbol>> {
    Seq::new(d.sequences.v@.len(), |z: int| d.sequences.v@[z].linear())
}

/// what `Sampler::_new` needs from the data set (SamplerData::new) and the width: the never-changing half of the invariant
pub open spec fn data_ok_w<A: Alphabet, C: PositiveLength>(d: SamplerData<A, C>, width: usize) -> bool {
    let n = d.sequences.v@.len() as int;
    let lins = data_lins(d);
    &&& d.counts@.len() == n && n <= u32::MAX      // a u32 cell counts at most 2^32-1 sequences (machine arithmetic)
    &&& forall|z: int| 0 <= z < n ==> (#[trigger] d.sequences.v@[z]).geom_ok() && d.sequences.v@[z].length >= width
            && d.sequences.v@[z].wrap >= width             // checked by Sampler::_new (it panics otherwise)
            && d.sequences.v@[z].length < usize::MAX       // A-MEM: one byte per symbol, allocations are < isize::MAX
    &&& forall|z: int, k: int| 0 <= z < n && 0 <= k < A::K::USIZE ==> (#[trigger] d.counts@[z]@[k]) == cnt(lins[z], lins[z].len() as int, k)
    // A-MEM: the data set fits in memory, so per-symbol totals fit usize - also when added up (they count distinct positions)
    &&& forall|k: int| 0 <= k < A::K::USIZE ==> #[trigger] tcnt(lins, n, k) <= usize::MAX
    &&& usum(Seq::new(A::K::USIZE as nat, |k: int| tcnt(lins, n, k) as usize), A::K::USIZE as int) <= usize::MAX
}

impl BitVec {
    pub open spec fn wf(&self) -> bool { self.data@.len() == self.len && self.count == acount(self.data@, self.len as int) }
}

pub struct Iteration<A: Alphabet> { pub counts: CountMatrix<A>, pub pssm: ScoringMatrix<A>, pub z: usize, pub step: usize, pub _hidden: () }

impl<'a, A: Alphabet, C: PositiveLength> Sampler<'a, A, C> {
    /// the seed list (zoops mode) holds valid sequence indices and is non-empty while it is used
    pub open spec fn seeds_ok(&self) -> bool {
        &&& forall|j: int| 0 <= j < self.seed@.len() ==> (#[trigger] self.seed@[j]) < self.n()
        &&& self.n() > 0
        &&& (self.mode is Zoops && self.inertia > 0) ==> self.seed@.len() > 0
    }
    pub open spec fn n(&self) -> int { self.data.sequences.v@.len() as int }
    pub open spec fn lins(&self) -> Seq<Seq<A::Symbol>> { data_lins(*self.data) }
    pub open spec fn align(&self) -> Align { Align { active: self.active.data@, starts: self.starts@ } }

    /// what never changes during a run: the data set and its cached per-sequence symbol counts
    pub open spec fn data_ok(&self) -> bool { data_ok_w(*self.data, self.width) }
    /// C16: "the reported motif count matrix equals the counts of the windows ..., the reported background equals the symbol
    /// counts outside their windows, every start leaves the window inside its sequence"
    pub open spec fn inv(&self) -> bool {
        &&& self.data_ok()
        &&& self.starts@.len() == self.n() && self.active.wf() && self.active.len == self.n()
        &&& forall|z: int| 0 <= z < self.n() ==> (#[trigger] self.starts@[z]) + self.width <= self.data.sequences.v@[z].length
        &&& self.motif.wf() && self.motif@.len() == self.width && self.scores.data.wf()
        &&& forall|i: int, k: int| 0 <= i < self.width && 0 <= k < A::K::USIZE ==>
                (#[trigger] self.motif@[i][k]) as int == mcnt(self.lins(), self.align(), self.n(), i, k)
        &&& forall|k: int| 0 <= k < A::K::USIZE ==>
                (#[trigger] self.background_counts@[k]) as int == bcnt(self.lins(), self.align(), self.width as int, self.n(), k)
    }
}
} // verus!
