// ===== spec/background.rs : "normalised symbol counts" (Background::from_counts), shared by groups convert (C09) and sampler (C16) =====
verus! {
pub uninterp spec fn cast_usize(x: usize) -> f32;
/// total of the first n counts
pub open spec fn usum(c: Seq<usize>, n: int) -> int
    decreases n
{ if n <= 0 { 0 } else { usum(c, n - 1) + c[n - 1] } }
pub proof fn lemma_usum_zero(c: Seq<usize>, n: int)
    requires 0 <= n <= c.len()
    ensures usum(c, n) >= 0, usum(c, n) == 0 <==> (forall|k: int| 0 <= k < n ==> c[k] == 0),
    decreases n
{ if n > 0 { lemma_usum_zero(c, n - 1); } }
pub proof fn lemma_usum_mono(a: Seq<usize>, b: Seq<usize>, n: int)
    requires 0 <= n <= a.len(), n <= b.len(), forall|k: int| 0 <= k < n ==> a[k] <= b[k],
    ensures usum(a, n) <= usum(b, n),
    decreases n
{ if n > 0 { lemma_usum_mono(a, b, n - 1); } }
/// C09 / C16: "normalised symbol counts"
pub open spec fn normalised<A: Alphabet>(b: Background<A>, counts: Seq<usize>) -> bool {
    forall|k: int| 0 <= k < A::K::USIZE ==> #[trigger] b.frequencies@[k] == fdiv(cast_usize(counts[k]), cast_usize(usum(counts, A::K::USIZE as int) as usize))
}
} // verus!
