// ===== spec/order.rs : the order the code's `>=` denotes (C07) =====
verus! {
/// `a >= b` as Rust evaluates it through `PartialOrd::partial_cmp`
pub open spec fn sge<T: PartialOrd>(a: T, b: T) -> bool {
    a.partial_cmp_spec(&b) == Some(core::cmp::Ordering::Greater) || a.partial_cmp_spec(&b) == Some(core::cmp::Ordering::Equal)
}
/// the cells of a score matrix are totally pre-ordered by `>=` ("32-bit float without NaN, or 8-bit")
pub open spec fn ord_ok<T: PartialOrd>(m: Seq<Seq<T>>, cols: int) -> bool {
    &&& forall|r: int, c: int| 0 <= r < m.len() && 0 <= c < cols ==> sge(#[trigger] m[r][c], m[r][c])
    &&& forall|r: int, c: int, r2: int, c2: int| 0 <= r < m.len() && 0 <= c < cols && 0 <= r2 < m.len() && 0 <= c2 < cols
            ==> sge(#[trigger] m[r][c], #[trigger] m[r2][c2]) || sge(m[r2][c2], m[r][c])
    &&& forall|r: int, c: int, r2: int, c2: int, r3: int, c3: int|
            0 <= r < m.len() && 0 <= c < cols && 0 <= r2 < m.len() && 0 <= c2 < cols && 0 <= r3 < m.len() && 0 <= c3 < cols
            && sge(#[trigger] m[r][c], #[trigger] m[r2][c2]) && sge(m[r2][c2], #[trigger] m[r3][c3]) ==> sge(m[r][c], m[r3][c3])
}
/// (r, c) comes before (i, j) in row-major order
pub open spec fn before(r: int, c: int, i: int, j: int) -> bool { r < i || (r == i && c < j) }

/// instance check: for u8 the hypothesis `ord_ok` holds of every matrix (so the generic contracts apply unconditionally)
pub proof fn lemma_u8_ord_ok(m: Seq<Seq<u8>>, cols: int)
    ensures ord_ok(m, cols), <u8 as PartialOrdSpec>::obeys_partial_cmp_spec()
{ }
} // verus!
