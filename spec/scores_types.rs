// ===== spec/scores_types.rs : data layout of scores::StripedScores and scores::Iter (fields as in /repo) =====
verus! {
pub struct StripedScores<T: MatrixElement, C: PositiveLength> { pub data: DenseMatrix<T, C>, pub max_index: usize }
pub struct Iter<'a, T: MatrixElement, C: PositiveLength> { pub scores: &'a StripedScores<T, C>, pub indices: Range<usize> }

impl<T: MatrixElement, C: PositiveLength> IndexSpecImpl<usize> for StripedScores<T, C> {
    /// weakest precondition of `Index<usize> for StripedScores`: no division by zero, cell inside the matrix
    open spec fn index_req(&self, i: &usize) -> bool {
        &&& self.data.wf()
        &&& self.data@.len() > 0
        &&& (*i as int) / (self.data@.len() as int) < C::USIZE
    }
}
} // verus!
