// ===== spec/maxspec.rs : the maximum / arg-maximum / threshold contracts every backend of the dispatcher is held to (C07), 32 columns =====
verus! {
/// `<Dispatch as Backend>::Lanes` on x86-64 (= `<Avx2 as Backend>::Lanes` = typenum U32)
pub struct U32;
impl Unsigned for U32 { const USIZE: usize = 32; }
impl PositiveLength for U32 { proof fn positive() {} }
pub open spec fn max_pre<T: MatrixElement + PartialOrd>(scores: StripedScores<T, U32>) -> bool {
    scores.data.wf() && T::obeys_partial_cmp_spec() && ord_ok(scores.data@, 32)
}
/// "the reported maximum equals the largest value stored in any cell of the matrix; None on an empty matrix"
pub open spec fn max_post<T: MatrixElement + PartialOrd>(scores: StripedScores<T, U32>, res: Option<T>) -> bool {
    &&& (scores.data@.len() == 0) <==> res is None
    &&& res is Some ==> {
            &&& exists|r: int, c: int| 0 <= r < scores.data@.len() && 0 <= c < 32 && #[trigger] scores.data@[r][c] == res->Some_0
            &&& forall|r: int, c: int| 0 <= r < scores.data@.len() && 0 <= c < 32 ==> sge(res->Some_0, #[trigger] scores.data@[r][c]) }
}
/// "the reported arg-maximum designates a cell holding that value"
pub open spec fn argmax_post<T: MatrixElement + PartialOrd>(scores: StripedScores<T, U32>, res: Option<MatrixCoordinates>) -> bool {
    &&& (scores.data@.len() == 0) <==> res is None
    &&& res is Some ==> {
            let p = res->Some_0;
            &&& p.row < scores.data@.len() && p.col < 32
            &&& forall|r: int, c: int| 0 <= r < scores.data@.len() && 0 <= c < 32 ==> sge(scores.data@[p.row as int][p.col as int], #[trigger] scores.data@[r][c]) }
}
/// "thresholding at t returns exactly the cells whose value is >= t (each once, in any order)" - as coordinates
pub open spec fn thr_post<T: MatrixElement + PartialOrd>(scores: StripedScores<T, U32>, threshold: T, positions: Seq<MatrixCoordinates>) -> bool {
    &&& forall|k: int| 0 <= k < positions.len() ==> {
            &&& (#[trigger] positions[k]).row < scores.data@.len() && positions[k].col < 32
            &&& sge(scores.data@[positions[k].row as int][positions[k].col as int], threshold) }
    &&& forall|r: int, c: int| 0 <= r < scores.data@.len() && 0 <= c < 32 && sge(#[trigger] scores.data@[r][c], threshold) ==>
            exists|k: int| 0 <= k < positions.len() && (#[trigger] positions[k]).row == r && positions[k].col == c
    &&& forall|k: int, l: int| 0 <= k < l < positions.len() ==>
            before((#[trigger] positions[k]).row as int, positions[k].col as int, (#[trigger] positions[l]).row as int, positions[l].col as int)
}
} // verus!
