// ===== spec/pwm_types.rs : data layout of abc::Background and the pwm matrices (fields as in /repo, derives dropped) =====
verus! {
pub struct Background<A: Alphabet> { pub frequencies: GenericArray<f32, A::K>, pub alphabet: core::marker::PhantomData<A> }
pub struct Pseudocounts<A: Alphabet> { pub counts: GenericArray<f32, A::K>, pub alphabet: core::marker::PhantomData<A> }
pub struct CountMatrix<A: Alphabet> { pub alphabet: core::marker::PhantomData<A>, pub data: DenseMatrix<u32, A::K>, pub n: usize }
pub struct FrequencyMatrix<A: Alphabet> { pub alphabet: core::marker::PhantomData<A>, pub data: DenseMatrix<f32, A::K> }
pub struct WeightMatrix<A: Alphabet> { pub background: Background<A>, pub data: DenseMatrix<f32, A::K> }
pub struct ScoringMatrix<A: Alphabet> { pub background: Background<A>, pub data: DenseMatrix<f32, A::K> }
pub struct DiscreteMatrix<A: Alphabet> { pub data: DenseMatrix<u8, A::K>, pub factor: f32, pub offsets: Vec<f32>, pub offset: f32 }
} // verus!
