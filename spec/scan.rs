// ===== spec/scan.rs : scanner state (fields as in scan.rs; the unused `scores` CowMut buffer is dropped) and C02/C03 oracles =====
//@include spec/score.rs
//@include spec/order.rs
verus! {
pub struct Dispatch;
pub struct Hit { pub position: usize, pub score: f32 }

pub trait AsRefPssm<A: Alphabet>: Sized {
    spec fn pssm_view(&self) -> ScoringMatrix<A>;
    fn as_ref(&self) -> (r: &ScoringMatrix<A>) ensures *r == self.pssm_view();
}
impl<A: Alphabet> AsRefPssm<A> for ScoringMatrix<A> {
    open spec fn pssm_view(&self) -> ScoringMatrix<A> { *self }
    fn as_ref(&self) -> (r: &ScoringMatrix<A>) { self }
}
impl<'a, A: Alphabet, M: AsRefPssm<A>> AsRefPssm<A> for &'a M {
    open spec fn pssm_view(&self) -> ScoringMatrix<A> { (**self).pssm_view() }
    fn as_ref(&self) -> (r: &ScoringMatrix<A>) { (**self).as_ref() }
}

pub struct Scanner<A: Alphabet, M: AsRefPssm<A>, S: AsRefSeq<A, C>, C: PositiveLength> {
    pub pssm: M,
    pub dm: DiscreteMatrix<A>,
    pub seq: S,
    pub dscores: StripedScores<u8, C>,
    pub threshold: f32,
    pub block_size: usize,
    pub row: usize,
    pub hits: Vec<Hit>,
    pub pipeline: Pipeline<A, Dispatch>,
}

/// `a > b` as Rust evaluates it through `PartialOrd::partial_cmp`
pub open spec fn sgt<T: PartialOrd>(a: T, b: T) -> bool { a.partial_cmp_spec(&b) == Some(core::cmp::Ordering::Greater) }

/// the byte a real score maps to (DiscreteMatrix::scale); its float arithmetic is uninterpreted (A-F4)
pub uninterp spec fn scale_spec(offset: f32, factor: f32, score: f32) -> u8;
pub uninterp spec fn f32_is_nan(x: f32) -> bool;

/// ghost: everything a scan depends on and never changes (so "unchanged" is ONE equality)
pub struct ScanCfg<A: Alphabet, C: PositiveLength> {
    pub pssm: ScoringMatrix<A>, pub dm: DiscreteMatrix<A>, pub q: StripedSequence<A, C>, pub threshold: f32, pub block_size: usize,
}
impl<A: Alphabet, C: PositiveLength> ScanCfg<A, C> {
    pub open spec fn s(&self) -> Seq<A::Symbol> { self.q.linear() }
    pub open spec fn mlen(&self) -> int { self.pssm.data@.len() as int }
    pub open spec fn rows(&self) -> int { self.q.seq_rows() }
    pub open spec fn npos(&self) -> int { n_pos(self.q.length as int, self.mlen()) }
    /// the exact (f32, left-to-right) score of position p
    pub open spec fn fscore(&self, p: int) -> f32 { fpos_sum(self.pssm.data@, self.s(), p, self.mlen()) }
    /// the 8-bit pre-filter value of position p
    pub open spec fn dscore(&self, p: int) -> int { sat255(upos_sum(self.dm.data@, self.s(), p, self.mlen())) }
    /// position p is a hit: "position i in [0, L-M] whose score is >= threshold"
    pub open spec fn is_hit(&self, p: int) -> bool { 0 <= p < self.npos() && sge(self.fscore(p), self.threshold) }
    pub open spec fn t(&self) -> u8 { scale_spec(self.dm.offset, self.dm.factor, self.threshold) }

    pub open spec fn ok(&self) -> bool {
        &&& self.q.stripe_ok(self.s()) && self.q.wrap_ok() && self.q.geom_ok() && self.q.length < usize::MAX
        &&& self.mlen() >= 1 && self.q.wrap + 1 >= self.mlen()
        &&& self.pssm.data.wf() && self.dm.data.wf() && self.dm.data@.len() == self.mlen()
        &&& self.block_size >= 1
        &&& self.q.data@.len() + 2 * self.block_size <= usize::MAX       // machine arithmetic of `row + block_size`
        // A-F: matrices with finite or -inf cells never produce NaN window sums
        &&& forall|p: int| 0 <= p < self.npos() ==> !f32_is_nan(#[trigger] self.fscore(p))
        // C08 (assumed here, A-F4): the 8-bit image never under-estimates
        &&& forall|p: int| self.is_hit(p) ==> #[trigger] self.dscore(p) >= self.t()
    }
    // ---- extra hypotheses used by Scanner::max (C03) ----
    /// the values `max` compares: the threshold (q = -1) and the exact scores of the valid positions
    pub open spec fn val(&self, q: int) -> f32 { if q < 0 { self.threshold } else { self.fscore(q) } }
    /// A-F2 (no NaN): `>=` is a total preorder on those values, and `>=` without `>` is symmetric;
    /// C08 in its general form (A-F4): the byte score of a position reaches the byte image of any value its real score reaches
    pub closed spec fn ord_ok(&self) -> bool {
        &&& forall|p: int, q: int| -1 <= p < self.npos() && -1 <= q < self.npos() ==> sge(self.val(p), self.val(q)) || sge(self.val(q), self.val(p))
        &&& forall|p: int, q: int, r: int| -1 <= p < self.npos() && -1 <= q < self.npos() && -1 <= r < self.npos()
                && sge(self.val(p), self.val(q)) && sge(self.val(q), self.val(r)) ==> sge(self.val(p), self.val(r))
        &&& forall|p: int, q: int| -1 <= p < self.npos() && -1 <= q < self.npos() && sge(self.val(p), self.val(q)) && !sgt(self.val(p), self.val(q))
                ==> sge(self.val(q), self.val(p))
        &&& forall|p: int, q: int| 0 <= p < self.npos() && -1 <= q < self.npos() && sge(self.fscore(p), self.val(q))
                ==> self.dscore(p) >= scale_spec(self.dm.offset, self.dm.factor, self.val(q))
    }
    pub proof fn ord_total(&self, p: int, q: int)
        requires self.ord_ok(), -1 <= p < self.npos(), -1 <= q < self.npos()
        ensures sge(self.val(p), self.val(q)) || sge(self.val(q), self.val(p))
    { }
    pub proof fn ord_trans(&self, p: int, q: int, r: int)
        requires self.ord_ok(), -1 <= p < self.npos(), -1 <= q < self.npos(), -1 <= r < self.npos(), sge(self.val(p), self.val(q)), sge(self.val(q), self.val(r))
        ensures sge(self.val(p), self.val(r))
    { }
    pub proof fn ord_sym(&self, p: int, q: int)
        requires self.ord_ok(), -1 <= p < self.npos(), -1 <= q < self.npos(), sge(self.val(p), self.val(q)), !sgt(self.val(p), self.val(q))
        ensures sge(self.val(q), self.val(p))
    { }
    pub proof fn prefilter(&self, p: int, q: int)
        requires self.ord_ok(), 0 <= p < self.npos(), -1 <= q < self.npos(), sge(self.fscore(p), self.val(q))
        ensures self.dscore(p) >= scale_spec(self.dm.offset, self.dm.factor, self.val(q))
    { }

    /// buffered hits are genuine, exact, distinct and lie in rows already scanned
    pub open spec fn buf_ok(&self, hits: Seq<Hit>, row: int) -> bool {
        &&& forall|k: int| 0 <= k < hits.len() ==> {
                &&& self.is_hit((#[trigger] hits[k]).position as int)
                &&& hits[k].score == self.fscore(hits[k].position as int)
                &&& (hits[k].position as int) % self.rows() < row }
        &&& forall|k: int, l: int| 0 <= k < l < hits.len() ==> (#[trigger] hits[k]).position != (#[trigger] hits[l]).position
    }
    /// abstract state: the positions still to be yielded (buffered, or hits in rows not yet scanned)
    pub open spec fn pend(&self, hits: Seq<Hit>, row: int, p: int) -> bool {
        in_buf(hits, p) || (self.is_hit(p) && p % self.rows() >= row)
    }
}
pub open spec fn in_buf(hits: Seq<Hit>, p: int) -> bool {
    exists|k: int| 0 <= k < hits.len() && (#[trigger] hits[k]).position == p
}

impl<A: Alphabet, M: AsRefPssm<A>, S: AsRefSeq<A, C>, C: PositiveLength> Scanner<A, M, S, C> {
    pub open spec fn cfg(&self) -> ScanCfg<A, C> {
        ScanCfg { pssm: self.pssm.pssm_view(), dm: self.dm, q: self.seq.seq_view(), threshold: self.threshold, block_size: self.block_size }
    }
    pub open spec fn inv(&self) -> bool {
        &&& self.cfg().ok() && self.cfg().buf_ok(self.hits@, self.row as int) && self.dscores.data.wf()
        &&& self.row <= self.cfg().q.data@.len() + self.block_size
    }
    pub open spec fn pending(&self, p: int) -> bool { self.cfg().pend(self.hits@, self.row as int, p) }
}
} // verus!
