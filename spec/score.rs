// ===== spec/score.rs : oracle for C01 / C08, from the property statement =====
//@include prelude/float.rs
verus! {
/// abstract addition: the value `a += b` leaves in `a` (exact for integers; for f32 a fixed function of (a, b), A-F1)
pub open spec fn plus<T: core::ops::AddAssign>(a: T, b: T) -> T { *a.add_assign_spec(b) }

/// "the value at position i is the sum over j of matrix[j][sequence[i+j]]", summed left to right starting from
/// `T::default()`; the window of column `col` starting at matrix row `row` reads cells (row + j, col)
pub open spec fn gsum<T: MatrixElement + core::ops::AddAssign, S: Symbol>(pssm: Seq<Seq<T>>, data: Seq<Seq<S>>, row: int, col: int, n: int) -> T
    decreases n
{
    if n <= 0 { T::default_value() } else { plus(gsum(pssm, data, row, col, n - 1), pssm[n - 1][data[row + n - 1][col].idx() as int]) }
}

/// the same sum over the linear sequence: score(M, s, i) with symbols past the end read as the wildcard
pub open spec fn lsum<T: MatrixElement + core::ops::AddAssign, S: Symbol>(pssm: Seq<Seq<T>>, s: Seq<S>, i: int, n: int) -> T
    decreases n
{
    if n <= 0 { T::default_value() } else { plus(lsum(pssm, s, i, n - 1), pssm[n - 1][sym_at(s, i + n - 1).idx() as int]) }
}

/// exact integer sum for the u8 instance
pub open spec fn win_sum<S: Symbol>(pssm: Seq<Seq<u8>>, data: Seq<Seq<S>>, row: int, col: int, n: int) -> int
    decreases n
{ if n <= 0 { 0 } else { win_sum(pssm, data, row, col, n - 1) + pssm[n - 1][data[row + n - 1][col].idx() as int] as int } }

/// single-position rescoring (pwm::ScoringMatrix::score_position): left-to-right f32 sum starting from 0.0
pub open spec fn fpos_sum<S: Symbol>(pssm: Seq<Seq<f32>>, cells: Seq<S>, pos: int, n: int) -> f32
    decreases n
{ if n <= 0 { 0.0f32 } else { fadd(fpos_sum(pssm, cells, pos, n - 1), pssm[n - 1][cells[pos + n - 1].idx() as int]) } }

/// single-position rescoring with the discrete matrix: exact integer sum
pub open spec fn upos_sum<S: Symbol>(pssm: Seq<Seq<u8>>, cells: Seq<S>, pos: int, n: int) -> int
    decreases n
{ if n <= 0 { 0 } else { upos_sum(pssm, cells, pos, n - 1) + pssm[n - 1][cells[pos + n - 1].idx() as int] as int } }

/// saturating byte sum
pub open spec fn sat255(x: int) -> int { if x > 255 { 255 } else { x } }

/// number of valid positions: L - M + 1, none when L < M
pub open spec fn n_pos(l: int, m: int) -> int { if l < m { 0 } else { l - m + 1 } }
} // verus!
