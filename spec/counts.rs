// ===== spec/counts.rs : oracle for C09 (count matrix) =====
verus! {
/// number of sequences among the first q whose symbol at position i has index k
pub open spec fn count_at<A: Alphabet>(seqs: Seq<EncodedSequence<A>>, q: int, i: int, k: int) -> int
    decreases q
{
    if q <= 0 { 0 } else {
        count_at::<A>(seqs, q - 1, i, k) + (if i < seqs[q - 1].data@.len() && seqs[q - 1].data@[i].idx() == k { 1int } else { 0int })
    }
}
pub proof fn lemma_count_at_bound<A: Alphabet>(seqs: Seq<EncodedSequence<A>>, q: int, i: int, k: int)
    requires q >= 0
    ensures 0 <= count_at::<A>(seqs, q, i, k) <= q
    decreases q
{ if q > 0 { lemma_count_at_bound::<A>(seqs, q - 1, i, k); } }
} // verus!
