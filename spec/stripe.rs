// ===== spec/stripe.rs : oracles for C04, written from the property statement =====
verus! {

/// R = ceil(L / C)
pub open spec fn ceil_div(l: int, c: int) -> int { if l % c == 0 { l / c } else { l / c + 1 } }

/// "symbol i sits at row i mod R, column i div R, every other cell holds the wildcard"
pub open spec fn cell<S: Symbol>(s: Seq<S>, R: int, r: int, c: int) -> S {
    if c * R + r < s.len() { s[c * R + r] } else { wild::<S>() }
}

/// symbol at linear position p, wildcard past the end
pub open spec fn sym_at<S: Symbol>(s: Seq<S>, p: int) -> S {
    if 0 <= p < s.len() { s[p] } else { wild::<S>() }
}

/// positions of the linear sequence holding `sym`  ("counting its symbols")
pub open spec fn occ_pred<S: Symbol>(s: Seq<S>, pred: spec_fn(S) -> bool) -> Set<int> {
    Set::<int>::range(0, s.len() as int).filter(|p: int| pred(s[p]))
}
pub open spec fn is_sym<S: Symbol>(sym: S) -> spec_fn(S) -> bool { |x: S| x == sym }
pub open spec fn has_idx<S: Symbol>(k: int) -> spec_fn(S) -> bool { |x: S| x.idx() == k }
pub open spec fn occ<S: Symbol>(s: Seq<S>, sym: S) -> Set<int> { occ_pred(s, is_sym(sym)) }
/// positions of the linear sequence whose symbol has index k
pub open spec fn occ_idx<S: Symbol>(s: Seq<S>, k: int) -> Set<int> { occ_pred(s, has_idx::<S>(k)) }

pub struct StripedSequence<A: Alphabet, C: Unsigned> {
    pub alphabet: core::marker::PhantomData<A>,
    pub length: usize,
    pub wrap: usize,
    pub data: DenseMatrix<A::Symbol, C>,
}

impl<A: Alphabet, C: PositiveLength> StripedSequence<A, C> {
    /// number of sequence rows (rows of the matrix that are not look-ahead rows)
    pub open spec fn seq_rows(&self) -> int { self.data@.len() - self.wrap }

    /// geometry invariant: the sequence rows can hold `length` symbols
    pub open spec fn geom_ok(&self) -> bool {
        &&& self.data.wf()
        &&& self.wrap <= self.data@.len()
        &&& self.length <= self.seq_rows() * C::USIZE
        &&& self.seq_rows() * C::USIZE <= usize::MAX
    }

    /// abstraction function: the linear sequence a striped matrix stands for
    /// ("symbol i sits at row i mod R, column i div R")
    pub open spec fn linear(&self) -> Seq<A::Symbol> {
        Seq::new(self.length as nat, |p: int| self.data@[p % self.seq_rows()][p / self.seq_rows()])
    }

    /// positions holding `sym` among those the row-major counting loop has visited before cell (i, j)
    pub open spec fn visited(&self, pred: spec_fn(A::Symbol) -> bool, i: int, j: int) -> Set<int> {
        Set::<int>::range(0, self.length as int).filter(|p: int| pred(self.linear()[p])
            && (p % self.seq_rows() < i || (p % self.seq_rows() == i && p / self.seq_rows() < j)))
    }

    /// all cells of the sequence rows in column-major order (the linear sequence followed by its padding)
    pub open spec fn linear_ext(&self) -> Seq<A::Symbol> {
        Seq::new((self.seq_rows() * C::USIZE) as nat, |p: int| self.data@[p % self.seq_rows()][p / self.seq_rows()])
    }

    /// the matrix is the striping of the linear sequence `s`
    pub open spec fn stripe_ok(&self, s: Seq<A::Symbol>) -> bool {
        &&& self.data.wf()
        &&& self.wrap <= self.data@.len()
        &&& self.length == s.len()
        &&& self.seq_rows() == ceil_div(s.len() as int, C::USIZE as int)
        &&& forall|r: int, c: int| 0 <= r < self.seq_rows() && 0 <= c < C::USIZE ==>
                (#[trigger] self.data@[r][c]) == cell(s, self.seq_rows(), r, c)
    }

    /// "look-ahead row k equals sequence row k shifted left by one column" (last column: wildcard)
    pub open spec fn wrap_ok(&self) -> bool {
        &&& forall|k: int, c: int| 0 <= k < self.wrap && 0 <= c < C::USIZE - 1 ==>
                (#[trigger] self.data@[self.seq_rows() + k][c]) == self.data@[k][c + 1]
        &&& forall|k: int| 0 <= k < self.wrap ==>
                (#[trigger] self.data@[self.seq_rows() + k][C::USIZE - 1]) == wild::<A::Symbol>()
    }
}

} // verus!
