// ===== spec/rc.rs : oracle for C10 =====
verus! {
// ASSUME(A-ABC2): shape of `abc::ComplementableAlphabet`: `complement` is a pure function of the symbol; the facts
// below (involution) are discharged for Dna/Nucleotide by the complete Kani harness k_c10_complement_involution
pub trait ComplementableAlphabet: Alphabet {
    spec fn comp(s: Self::Symbol) -> Self::Symbol;
    fn complement(s: Self::Symbol) -> (r: Self::Symbol) ensures r == Self::comp(s);
    proof fn comp_involution(s: Self::Symbol) ensures Self::comp(Self::comp(s)) == s;
}

/// index of the complement of the symbol with index k
pub open spec fn comp_idx<A: ComplementableAlphabet>(k: int) -> int { A::comp(A::symbols_spec()[k]).idx() as int }

/// "row reversal combined with column permutation by symbol complement": rc(M)[i][k] = M[|M|-1-i][comp(k)]
pub open spec fn is_rc<A: ComplementableAlphabet, T>(out: Seq<Seq<T>>, m: Seq<Seq<T>>) -> bool {
    &&& out.len() == m.len()
    &&& forall|i: int, k: int| 0 <= i < m.len() && 0 <= k < A::K::USIZE ==> (#[trigger] out[i][k]) == m[m.len() - 1 - i][comp_idx::<A>(k)]
}
} // verus!
