// ===== spec/encseq.rs : data layout of seq::EncodedSequence (fields as in /repo) =====
verus! {
pub struct EncodedSequence<A: Alphabet> { pub alphabet: core::marker::PhantomData<A>, pub data: Vec<A::Symbol> }
} // verus!
